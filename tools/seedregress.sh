#!/bin/bash
# tools/seedregress.sh [budget_s] : applies every kept seeded change (seeded/*/patch.diff) in turn to the repo the
# harness is pointed at (VERIF_REPO, default /repo), runs the checks named in its meta.json "caught_by" until one
# reports a violation, and reverts. Prints one line per change; exit 1 if a change recorded as caught is not.
# Meant to be run on a snapshot (vp run --with-repo), never while /repo is in use.
B=${1:-45}
ROOT="$(cd "$(dirname "$0")/.." && pwd)"
REPO=${VERIF_REPO:-/repo}
cd "$REPO" && git diff --quiet || { echo "repo dirty"; exit 2; }
bad=0; n=0
for d in "$ROOT"/seeded/*/; do
  name=$(basename "$d"); [ "$name" = _discarded ] && continue
  ids=$(python3 -c "
import json,re,sys
m=json.load(open('$d/meta.json'))
c=m.get('caught_by','')
print(' '.join(dict.fromkeys(re.findall(r'C\d\d',c))) if 'NOT CAUGHT' not in c else '')")
  [ -z "$ids" ] && { echo "$name: recorded as not caught, skipped"; continue; }
  git -C "$REPO" apply "$d/patch.diff" 2>/dev/null || { echo "$name: PATCH DOES NOT APPLY"; bad=1; continue; }
  n=$((n+1)); hit=""
  for id in $ids; do
    out=$(cd "$ROOT" && VERIF_NO_EVIDENCE=1 VERIF_BUDGET_S=$B VERIF_SEED=$((RANDOM%50+1)) bin/check $id quick 2>&1); rc=$?
    if [ $rc -eq 1 ]; then hit="$id $(echo "$out" | grep 'violation detail' | head -1 | cut -c19-110)"; break; fi
    [ $rc -eq 2 ] && echo "$name: INFRA from $id: $(echo "$out" | tail -2 | tr '\n' ' ' | cut -c1-200)"
  done
  git -C "$REPO" checkout -- . 
  if [ -n "$hit" ]; then echo "$name: caught by $hit"; else echo "$name: NOT CAUGHT by [$ids] in ${B}s"; bad=1; fi
done
echo "seed regression: $n changes applied, bad=$bad"
exit $bad
