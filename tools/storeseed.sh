#!/bin/bash
# storeseed.sh <seeddir> <name> <prop> <summary> <needs> <caught_by> <sig>
sd=$1; name=$2; prop=$3
d=/verif/seeded/$name; mkdir -p $d
cp -r $sd/patch.diff $sd/demo $sd/NOTES.md $d/ 2>/dev/null
python3 - "$d" "$prop" "$4" "$5" "$6" "$7" <<'PY'
import json,sys
d,prop,summ,needs,caught,sig=sys.argv[1:7]
json.dump({"property":prop,"summary":summ,"needs_to_manifest":needs,
"origin":"independent sub-agent (" + __import__("os").environ.get("SEED_ROUND","seventh round") + ") with a scratch worktree of /repo at " + __import__("os").environ.get("SEED_BASE","8829920"),
"verified":{"suite_with_change":"go test of the touched package passes (tools/seedverify.sh)","demo_with_change":"FAIL","demo_without_change":"ok"},
"checks_run":"tools/seedtest.sh <patch> 30-80 <ids>","caught_by":caught,"violation_signature":sig},open(d+"/meta.json","w"),indent=1)
PY
ls $d
