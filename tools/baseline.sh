#!/bin/bash
# Runs the repository's pinned test suite with the verif guard OFF and compares with /root/.vp/BASELINE.json stable_pass.
OUT=${1:-/tmp/verif-baseline.json}
: > $OUT
for m in $(cat /w/out/gomods.txt); do MF=$(cd /repo/$m && . /w/out/goenv.sh && gomodflag); (cd /repo/$m && go test $MF -json -vet=off -count=1 -timeout 25m ./... >> $OUT 2>/dev/null); done
python3 - "$OUT" <<'PY'
import json,sys
passed=set(); failed=set()
for l in open(sys.argv[1]):
    try: e=json.loads(l)
    except: continue
    if e.get('Test') and e.get('Action') in('pass','fail'):
        k=e['Package']+'::'+e['Test']
        (passed if e['Action']=='pass' else failed).add(k)
b=json.load(open('/root/.vp/BASELINE.json'))
stable=set(b['stable_pass'])
missing=sorted(stable-passed)
print("baseline: %d stable tests, %d passed now, %d missing/failing, %d failed total"%(len(stable),len(stable&passed),len(missing),len(failed)))
for m in missing[:40]: print("  NOT PASSING:",m)
sys.exit(1 if missing else 0)
PY
