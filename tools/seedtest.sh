#!/bin/bash
# tools/seedtest.sh <patch.diff> <budget_s> <check ids...> : applies a seeded change to /repo, runs the checks, reverts.
P=$1; B=$2; shift 2
cd /repo && git diff --quiet || { echo "repo dirty"; exit 2; }
git -C /repo apply "$P" || { echo "patch does not apply"; exit 2; }
for id in "$@"; do
  out=$(cd /verif && VERIF_NO_EVIDENCE=1 VERIF_BUDGET_S=$B bin/check $id quick 2>&1); rc=$?
  echo "[$id rc=$rc] $(echo "$out" | grep 'violation detail' | cut -c1-330)"
  [ $rc -eq 2 ] && echo "$out" | tail -5
done
git -C /repo checkout -- . ; git -C /repo status --short | head -3
