#!/bin/bash
# tools/determinism.sh <id> [nseeds] [scenarios-per-worker]
# Runs the same seeds in fresh processes under GOMAXPROCS 1, 4 and 16 and diffs the per-scenario
# event-log hashes. Exit 0 = identical.
ID=${1:?id}; NS=${2:-8}; N=${3:-25}
ROOT="$(cd "$(dirname "$0")/.." && pwd)"
BIN="$ROOT/build/checks.test"; [ "$ID" = C13 ] && BIN="$ROOT/build/netsim.test"
# whole-node scenarios and the real-loops family run real goroutines whose interleaving is the Go scheduler's: excluded here
export VERIF_NO_WHOLE=1
export VERIF_ROOT="$ROOT" VERIF_NO_EVIDENCE=1 VERIF_MAX_SCENARIOS=$N VERIF_BUDGET_S=600
D=$(mktemp -d /tmp/verif-det.XXXX); trap 'rm -rf $D' EXIT
bad=0; total=0
for seed in $(seq 1 $NS); do
  for p in 1 4 16; do
    ( GOMAXPROCS=$p VERIF_SEED=$seed VERIF_DUMP=$D/$seed.$p "$BIN" -test.run "^Test${ID}\$" -test.count 1 >/dev/null 2>&1; sort $D/$seed.$p -o $D/$seed.$p ) &
  done
  wait
  total=$((total+$(wc -l < $D/$seed.1)))
  for p in 4 16; do
    if ! cmp -s $D/$seed.1 $D/$seed.$p; then echo "NONDETERMINISM $ID seed=$seed GOMAXPROCS=1 vs $p"; diff $D/$seed.1 $D/$seed.$p | head -5; bad=1; fi
  done
done
echo "determinism $ID: $NS seeds x 3 processes, $total scenario logs compared, bad=$bad"
exit $bad
