#!/usr/bin/env python3
"""Builds the self-contained prompt for one mutant-writing sub-agent: the property text, a scratch worktree,
an output directory, and the one-line ideas already produced for that property (so that rounds do not repeat).
Nothing else from /verif goes into it.   usage: mkprompt.py <round> <id> <steering-file|-> > prompt.txt"""
import json, sys, glob, os
rnd, pid, steer = sys.argv[1], sys.argv[2], sys.argv[3]
here = os.path.dirname(os.path.dirname(os.path.abspath(__file__)))
prop = next(json.loads(l) for l in open(here + '/properties.jsonl') if json.loads(l)['id'] == pid)
wt, out = f'/tmp/wt{rnd}-{pid}', f'/tmp/seed{rnd}-{pid}'
done = []
for m in sorted(glob.glob(here + f'/seeded/{pid}*/meta.json')) + sorted(glob.glob(here + f'/seeded/_discarded/{pid}*/meta.json')):
    try: done.append(json.load(open(m))['summary'])
    except Exception: pass
steering = '' if steer == '-' else open(steer).read().strip()
print(f"""You are helping to evaluate a verification effort. Your job: produce ONE realistic change ("seeded defect") to the Go repository in your scratch git worktree that BREAKS the semantic property given below, while the repository still compiles and its existing test suite still passes. You work ONLY inside your scratch worktree and your output directory; never touch /repo or /verif.

Scratch worktree (a git worktree of the project, module github.com/evstack/ev-node, multi-module repo): {wt}
Output directory: {out}

Environment notes (sealed sandbox, no network):
- Use the default `go` with: export GOFLAGS=-mod=mod GOPROXY=off   (do NOT set GOSUMDB=off). Sub-modules (core, da, sequencers/single, sequencers/based, apps/testapp) have their own go.mod; run `go test ./...` inside the module you touch.
- Running the block package tests: (cd {wt} && go test -vet=off -count=1 ./block/) takes ~20 s. Run the tests of every package you touch (and packages that obviously depend on it) to confirm they still pass with your change.
- Files named verif_hooks.go (build tag `verif`) are instrumentation; do not edit them and do not rely on them.
- NEVER use `git stash` (the stash is shared between worktrees and other people are working in sibling worktrees). To test both directions use: git diff > {out}/patch.diff ; git apply -R {out}/patch.diff ; run ; git apply {out}/patch.diff ; run.

The property:
----
{prop['id']} — {prop['title']}

Statement: {prop['statement']}

Quantifier ({', '.join(prop['quantifier']['over'])}): {prop['quantifier']['text']}

Why the existing tests cannot settle it: {prop['why_tests_cant']}

Anchor files: {', '.join(prop['anchors']['files'])}

----

Requirements for the change:
1. It must be a plausible edit a developer could make (a refactor gone wrong, an off-by-one, a reordered pair of statements, a dropped check, a wrong key, an "optimisation"), small (ideally < 30 changed lines), in non-test production code only (not in *_test.go, not in verif_hooks.go).
2. It must genuinely violate the property as stated (re-read the statement and the quantifier), not merely change an implementation detail.
3. It must need something specific to manifest: a particular interleaving, a crash or fault at a particular point, a multi-step sequence of operations, an unusual input or configuration, or two cooperating sites that each look fine alone. It must NOT be something ordinary use or the existing tests expose at once.
4. The repo must still compile (go build ./... in each touched module; also `go vet -tags verif ./block/` must not fail to compile) and the existing tests of the touched packages must still pass.
5. Write a demonstration: a new Go test file (or small program) that FAILS with your change applied and PASSES on the unchanged tree. Keep it self-contained (it may live in the touched package as an extra _test.go file, using that package's existing test helpers/mocks). Verify both directions yourself.

Deliverables, all under {out}:
- patch.diff  : `git diff` of the production-code change ONLY (without the demonstration file), applicable with `git apply` at the repo root.
- demo/       : the demonstration test file(s) plus a one-line `run.sh` that runs it from the repo root (e.g. `go test -vet=off -count=1 -run TestSeededDemo ./block/`), and the relative path where each demo file must be placed.
- NOTES.md    : which clause of the property is broken, what exactly is needed for the defect to manifest (the trigger), and the commands you ran with their outcome (tests pass with the change; demo fails with the change and passes without).
Leave the worktree with your change applied (uncommitted) plus the demo file in place. Do not commit.

Reply with a short summary: the file(s) changed, the trigger, and confirmation of the three outcomes (suite passes with change; demo fails with change; demo passes without).
""")
if steering:
    print("Steering for this round: " + steering + "\n")
if done:
    print("Already produced by others for this property - do NOT reuse these ideas or close variants:")
    for d in done: print("- " + d)
