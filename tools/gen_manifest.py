#!/usr/bin/env python3
"""Regenerates /verif/MANIFEST.json from the table below (keeps it schema-valid and consistent)."""
import json
import os
import subprocess

ROOT = os.path.normpath(os.path.join(os.path.dirname(os.path.abspath(__file__)), ".."))

# id -> (level, technique, text, note, design_ref, engine)
CHECKS = {
    "C01": ("exploration",
            "deterministic simulation: real aggregator block manager in a synctest bubble with scripted sequencing/execution doubles; seeded response sequences; reference chain model; bounded liveness after faults stop",
            "Seeded sequences of production steps (sequencing response kind x timestamp relation x execution outcome, clean restarts, initial height 1..50, lazy/normal config) drive the real publishBlock path over the real store; "
            "after every step the committed block is checked against an independent chain model (height+1, hash link, time, batch attribution in release order, data commitment, app-hash chain, proposer signature under the harness-held key, full-node validation, broadcast=stored, height/state agreement); "
            "then responses turn well-formed and a block must be committed within 3 steps. Sampling over a large space, not proof.",
            "Execution and sequencing layers are doubles; the disk is simulated; lazy vs normal mode only changes when publishBlock is called (loops themselves are C17/C13).",
            "DESIGN.md §5 C01", "stepsim"),
    "C02": ("exploration",
            "deterministic simulation: real follower loops (DA retrieve, P2P store polling, sync) in a synctest bubble; harness-decided blob placement, event order, duplication and clean restarts; prefix-equality oracle against a real proposer's chain",
            "A real aggregator produces a seeded chain; a real follower receives header/data parts via seeded DA placements, P2P store advances, arbitrary-order and duplicated deliveries to the sync loop and clean restarts; after every delivery the applied prefix must equal the proposer's chain (hashes, tx lists, state root), be gap-free, applied in height order, and (restart-free runs) sit at exactly the largest height whose parts were all delivered; finally everything is delivered and the follower must reach the proposer's height. Sampling, not proof.",
            "P2P stores are harness doubles with genuine contents; go-header/libp2p transport is exercised only in Engine N.",
            "DESIGN.md §5 C02", "stepsim"),
    "C04": ("fault_enumeration",
            "deterministic simulation with crash-point enumeration: every durable-write boundary of a production step (nested depth 2-3) on the real aggregator over a journalled simulated disk; restart with real NewManager; bounded-liveness and exposed-block oracles",
            "For seeded history prefixes every durable-write boundary of the target production step is a crash point and, for each, every boundary of the first recovery production (depth 3 in part of thorough); each member is executed from scratch, restarted with the real start-up code, must produce within 3 steps, keep every committed/published block, and end with a valid chain whose height/state/blocks agree. An eighth of the families are whole-node families: the sequencer node is a real node.FullNode (P2P client, go-header header/data stores on the same simulated disk, all loops) with an optional syncing peer over a libp2p mocknet; after a seeded warm-up the (k+1)-th durable write of any component kills the incarnation, and the node restarted on the durable image must stay up and commit at least 3 blocks in 12 block times (k until the crash no longer fires; write order is the Go scheduler's, replay best-effort). Exhaustive over boundaries of the enumerated steps, sampled over histories.",
            "Crash = process death with ordered durable writes and atomic batches. The cache-file crash states of the shutdown save are enumerated in every run from an strace recording of the real SaveCache (every prefix of the recorded file operations plus cuts inside each write), so the tree is judged on its own system calls; needs strace (present in the sandbox; if missing the sub-check reports that in the evidence and is skipped).",
            "DESIGN.md §5 C04", "stepsim"),
    "C05": ("fault_enumeration",
            "deterministic simulation with crash-point enumeration: every durable-write boundary of block application on a real follower (nested depth 2), restart, seeded re-delivery order (or, in DA-driven families, the real RetrieveLoop + SyncLoop over a seeded DA layout), prefix-equality oracle",
            "For seeded chains every durable-write boundary of the triggering block application (1-3 blocks applied at once) is a crash point and, for each, every boundary of the seeded re-delivery phase is a nested crash point; after every restart the image must have a proposer-identical block for every height up to the recorded chain height and a state for exactly that height; finally the follower must reach the proposer's chain. In about a fifth of the event-driven families the write at the enumerated boundary is refused by the storage instead of the process being killed: the sync loop reports it, the node stops the orderly way (caches saved), is started again, and must reach the proposer's chain once everything was re-delivered and the proposer's next block arrived. A third of the families are DA-driven: the chain lies on the simulated DA layer (header and data of a block at different heights, later headers below earlier data), the real RetrieveLoop and SyncLoop scan and apply it, crash points cut the durable writes of that phase, in-memory queues die with the process and the scan alone must bring the restarted node to the proposer's height. An eighth of the families are whole-node families: a real full node (node.FullNode with P2P client, go-header stores, DA retrieve, P2P store loops, sync, DA includer) follows a real sequencer node over a libp2p mocknet; its (k+1)-th durable write kills it, and restarted on the durable image it must stay up and reach the sequencer's height with an identical chain. Exhaustive over boundaries of the enumerated applications, sampled over chains.",
            "Crash = process death with ordered durable writes and atomic batches.",
            "DESIGN.md §5 C05", "stepsim"),
    "C11": ("fault_enumeration",
            "deterministic simulation with crash-point enumeration: every durable-write boundary of a marked reap/production step in seeded tx-arrival histories with refusals; drain; ledger oracle (taken from mempool vs committed chain) and release-order oracle",
            "Seeded histories of tx arrivals (incl. repeats), reaps, productions (one in eight with an execution layer that refuses the block once, after which the node stops and restarts), restarts and kills with queue bound 1..8; one marked reap or production has every durable-write boundary enumerated as crash point; after a drain every distinct transaction the mempool ever handed to the node must be in a committed block, non-empty blocks must follow the sequencer's release order, and without crashes nothing is included more often than injected.",
            "Mempool is the execution double (non-draining GetTxs per interface contract). Two crash boundaries that lose a batch are genuine, unrepaired defects listed in known_findings.json.",
            "DESIGN.md §5 C11", "stepsim"),
    "C06": ("exploration",
            "deterministic simulation: real submission loops in a synctest bubble against a simulated DA with scripted outcome sequences, restarts/kills/crashes between attempts; ledger oracle over the DA call log and the persisted watermarks; bounded liveness after faults stop",
            "Seeded production histories (empty/non-empty, initial height 1..50) with scripted DA outcomes (12 kinds incl. partial acceptance, lost acknowledgement, blocking, node death before/after the DA stored the blobs), the real header/data submission loops run for windows of simulated time, clean restarts, kills and crashes cutting the watermark write. Every submit call must carry exactly the committed, proposer-signed headers/non-empty data in height order starting above the persisted watermark and never past an unaccepted height; watermarks must be monotone and sound; after faults stop everything must reach DA. Sampling, not proof.",
            "DA is simulated; a loop cancelled at the end of its window is treated as one that gave up early.",
            "DESIGN.md §5 C06", "stepsim"),
    "C07": ("exploration",
            "deterministic simulation: real DA-includer, submission, retrieve and sync loops scheduled by the harness; DA faults, clean restarts, kills and crashes inside inclusion runs; oracle over DA log, finalize log and disk; bounded liveness",
            "Aggregator and follower roles. After every operation the reported/persisted DA-included height must be monotone (also across restarts), at most the chain height, preceded by finalize calls 1,2,3,... (repeat only by a later incarnation), backed by blobs accepted by (aggregator) or fetched from (follower) the DA layer, and the recorded DA heights must hold the blobs; after faults stop the height must be reached within a small budget. Sampling, not proof.",
            "Initial height 1. Three genuine, unrepaired defects are listed in known_findings.json (aggregator marks lost on crash; data marks keyed by commitment only).",
            "DESIGN.md §5 C07", "stepsim"),
    "C08": ("exploration",
            "deterministic simulation: real aggregator with pending limit, real submission loops, simulated DA outages of finite length; refusal-legality oracle against the DA ledger; bounded liveness with an accepting DA",
            "Seeded histories with limit 1..8, initial height 1..50, all-empty/mixed/all-non-empty chains and finite DA outages. A production step that declines is legal only while at least `limit` committed blocks still wait for DA acceptance (header or non-empty data); with an accepting DA every round must commit a block. One scenario in twelve runs the real aggregation loop (lazy or normal) together with the real submission loops as goroutines under the fake clock through an outage (answered with a generic error, one of the classified errors - timed out, in mempool, deadline, sequence error, a cancellation reported by the DA side - or a rotation of all) and a recovery; the idle chain must then grow at the sustainable rate. Sampling, not proof.",
            "Only outages are injected so that accepted and acknowledged coincide.",
            "DESIGN.md §5 C08", "stepsim"),
    "C03": ("exploration",
            "deterministic simulation: C02's world plus a seeded adversary (other key) publishing forged/mutated/unsigned material on the simulated DA, in the polled P2P header store, and to the header-only admission pipeline; prefix-equality, no-mark, no-halt, no-panic oracles",
            "12 kinds of adversarial headers (incl. a third party's fully self-consistent headers under its own address) and 7 kinds of adversarial signed data built without the proposer's private key are interleaved with genuine traffic, arbitrary delivery order and restarts on a real follower; nothing adversarial may be applied, stored in the chain, marked DA-included or admitted by the light-node pipeline (real types + go-header Verify); DA-borne material may neither halt the follower nor keep it from reaching the proposer's height. A tenth of the scenarios are whole-node attacks: a real sequencer node, full node and header-only LightNode over a libp2p mocknet plus a raw gossipsub adversary publishing the forged headers (aimed at the next height, racing the genuine header, at past heights and at the head), forged data and junk on the chain's topics; afterwards every header in the victims' P2P header stores must be the proposer's, the full node's chain a caught-up prefix of the proposer's, and no node may have shut itself down. Sampling, not proof.",
            "Manager-level scenarios: light node = the library's admission pipeline on real types, P2P stores are doubles, a follower halted by junk P2P material is not judged. Whole-node scenarios: real nodes; the adversary speaks gossip only (no malicious exchange server).",
            "DESIGN.md §5 C03", "stepsim"),
    "C09": ("exploration",
            "deterministic simulation: real RetrieveLoop + RetrieveWithHelpers against a simulated DA with seeded contents (genuine + junk blobs, >100 per height) and per-height fetch outcome scripts; oracle over the DA call log and emitted events",
            "Seeded DA contents over 8 heights from start height 0..20 with genuine blobs of a real proposer chain mixed with 6 kinds of junk, per-height outcome sequences (not-found claim, future, listing error, chunk error, a correct answer that takes 31 s and ignores the caller's deadline), three empty-height styles and seeded signals. The request log must examine heights in order from the start, leave a height only after success/confirmed-empty, retry after failure; every genuine item must be handed to sync with the height it was found at, nothing else; no panic, no stall, no busy loop. Sampling, not proof.",
            "Junk excludes third-party self-consistent forgeries (C03). A DA never claims 'not found' for a height holding blobs.",
            "DESIGN.md §5 C09", "stepsim"),
    "C15": ("exploration",
            "deterministic simulation: three real KV executors over simulated disks driven with seeded interleavings of execute/finalize/inject/init/reopen; differential (metamorphic) root comparison against a reference instance plus a last-writer-wins key/value model",
            "Proposer-like and follower-like instances get finalize calls at different times, mempool traffic, repeated InitChain and reopen; a reference instance only executes. Blocks carry several writes per key and differently spelled keys that normalise to one datastore key. Per block all three state roots must be equal and every key must read back the value of the last transaction that wrote it; malformed blocks must fail and change nothing; re-execution and repeated initialization must be idempotent. Sampling, not proof.",
            "Executor database is the simulated disk via a hook constructor.",
            "DESIGN.md §5 C15", "stepsim"),
    "C16": ("exploration",
            "differential simulation: identical simulated DA layers driven call by call directly and through the real JSON-RPC server+client over loopback, with every DA error injected at the backing store; seeded call sequences through the node's helpers",
            "Seeded sequences of submissions (blob sizes around the limit, empty, many), retrievals (empty, future, failing, chunked >100 blobs), all submit errors of the DA interface, partial acceptance and pre-cancelled contexts; status code, submitted count, ids, blobs and backing-store contents must be equal call by call. Sampling, not proof.",
            "The JSON-RPC transport is a real loopback socket (no seam); the two backing stores are separate but identical.",
            "DESIGN.md §5 C16", "stepsim"),
    "C17": ("exploration",
            "deterministic simulation: the real aggregation loop under the synctest fake clock with a recording publishBlock of seeded simulated duration and notifications at seeded instants; exact oracle on recorded start/end times",
            "Block interval 10 ms-10 s, idle/block ratio 0.2-100, production durations 0-3x block interval, notifications incl. inside productions, lazy and normal mode, 20-500 block intervals per run; a fifth of the scenarios run the second incarnation of a node restarted on a chain with really produced blocks after 0-2 idle intervals of downtime (its start-up wait is judged: a block within one block interval of a notification, and in normal mode within one block interval of the start). Every notification must be followed by a production start within one block interval (counted from the end of a production in flight), gaps between starts never below the block interval and never above idle(+duration)+block interval; normal mode one block per interval regardless of notifications. Sampling, not proof.",
            "publishBlock replaced via hook; same-instant timer ties are resolved by the Go runtime's select (oracle holds for every choice; replay retries).",
            "DESIGN.md §5 C17", "stepsim"),
    "C19": ("fault_enumeration",
            "fault enumeration over the key file image: every truncation length and every byte position x bit flips/replacement on files written by the real code, wrong passphrases, legacy format, export/import; oracle = Load fails or yields exactly the original, self-consistent key; never a panic",
            "For each (passphrase class, format) variant the key file written by the real ImportPrivateKey is damaged at every truncation length and every byte position (2 bit flips + a replacement byte in quick, all 8 bit flips in thorough) and loaded with the real loader; a successful load must report the created public key, produce signatures that verify under it and have the address full nodes derive; wrong passphrases never load; export->import->load preserves the key; seeded double faults on top. Exhaustive over single faults of the enumerated variants.",
            "Torn writes are covered as truncations (superset). Salt/nonce come from crypto/rand, so byte values (not positions) differ between runs. One known finding (legacy format truncates the passphrase to 32 bytes).",
            "DESIGN.md §5 C19", "stepsim"),
    "C20": ("exploration",
            "deterministic simulation: real based sequencer over simulated disk and DA; harness plays the block manager with seeded size limits, DA growth, retrieval errors and restarts; DA-order prefix oracle and bounded liveness",
            "Seeded DA contents (0-6 tx blobs per height, sizes 1-200 B), heights appearing over time, GetNextBatch with limits from 4 B to default, scripted retrieval failures, restarts with/without the caller's cursor, drift 1-4. Released transactions must form a gap-free, repeat-free prefix of the DA order, no batch may exceed its limit, and with a healthy DA everything must be released within a call budget. Sampling, not proof.",
            "The harness is the only client (LastBatchData = previous non-empty answer).",
            "DESIGN.md §5 C20", "stepsim"),
    "C10": ("exploration",
            "deterministic simulation: seeded submit/next/restart/crash histories on the real single sequencer over a simulated journalled disk vs a FIFO model; porcupine linearizability check of concurrent histories whose interleaving at every datastore operation is decided by a seeded park-and-release scheduler",
            "Seeded histories (identical contents, empty, foreign chain id, beyond the bound, restart = new sequencer on the durable image with the same, a smaller or a larger bound, crash cutting the durable write inside an operation, a datastore that refuses the write of a submission) are checked operation by operation against a FIFO model with candidate sets for undetermined operations, "
            "followed by restart-and-drain; per scenario one concurrent history (4 client tasks released one at a time at datastore operations by a seeded scheduler, shared and unique contents, then restart and drain) is checked with porcupine against the same model. Sampling, not proof.",
            "Simulated disk iterates in key order like badger; crash model is process death.",
            "DESIGN.md §5 C10", "stepsim"),
    "C13": ("exploration",
            "whole-node simulation under the synctest fake clock with the race detector: all background loops of an aggregator and a full node as real concurrent goroutines against simulated DA/execution/disk, seeded stimuli, latencies (time dilation), DA faults and stop instants; schedule-independent oracles",
            "Per run the seed fixes block/DA times, lazy/normal mode, pending limit, genesis in the past or future, transaction arrivals, DA fault script, DA and execution latencies, run length and the stop instant (biased into the start-up delay). Oracles valid on every schedule: no race-detector report, every worker returns within 1 s of simulated time after the stop (never-stopping workers are reported through an emergency path), and post-mortem C01 chain validity, C02 prefix equality, C06 submission/watermark soundness, C07 finalize order and bound. A third of the whole-node scenarios are restart timelines (run, transactions, clean stop, kill, start again on the durable image, P2P cut/heal, DA faults, then a fault-free final phase): every stop must return within the shutdown budget, no node may shut itself down, and every full node must reach the height the proposer had when the final phase began. Directed: the real header/data sync services receive their first item (and, after a restart, three further headers) while other tasks look up the store's head; all 2^11 choice prefixes of a park-and-release scheduler over the datastore operations are run in child processes and none may end the process. Sampling of interleavings, not proof.",
            "Two halves, both run by bin/check C13: (1) Manager-level configuration with the race detector (all ten loops of an aggregator and a full node as concurrent goroutines; P2P replaced by a gossip goroutine); (2) whole node.FullNode objects (real Run, P2P client, go-header/gossipsub sync services over a libp2p mocknet, shutdown sequence) WITHOUT the race detector, because this toolchain's race runtime crashes in that configuration. Interleavings are chosen by the Go scheduler (time dilation only spreads activities over simulated time): replay is seed-exact for stimuli and faults, best-effort for the interleaving (20 attempts).",
            "DESIGN.md §4.5, §5 C13", "netsim"),
    "C14": ("exploration",
            "deterministic simulation: seeded op/crash/disk-error histories on the real store over a simulated journalled disk, checked against a map model",
            "Seeded operation histories (save/overwrite/set-height/state/metadata/reopen/crash inside an operation/injected disk error) run on the real DefaultStore over a simulated disk with a write journal; "
            "a map model is compared after every operation by reading the whole universe back (or lazily, at check points); state writes move one field at a time as well as all together; a crash cutting any durable write of an operation must leave the old or the new state. "
            "Sampling, not proof; a fraction of thorough runs repeats histories on real badger.",
            "Trusts the simulated disk's crash model (process death, atomic batches, ordered durability) as a faithful abstraction of badger; encodings are real.",
            "DESIGN.md §5 C14", "stepsim"),
}

NOT_APPLICABLE = {
    "C12": "pure functions of their input (encode/decode/hash): no schedule, clock, fault, crash point or second party for a simulator to control; belongs to round-trip/fuzz generation, a different technique family (DESIGN.md §6)",
    "C18": "pure function of (defaults, file contents, flag values); file I/O is only the carrier, no interleaving, time or fault enters the statement (DESIGN.md §6)",
}

PENDING = "check not built yet in this session (planned, see DESIGN.md §5)"

ALL = ["C%02d" % i for i in range(1, 21)]


# additions made after the mutant rounds 9-14 (appended to the level text of the check)
EXTRA = {
    "C01": " Timestamps also lie 100 and 600 us after the last block (sub-millisecond parts); transactions may have length zero.",
    "C02": " Followers run with a seeded pending-block limit (0-3); a third of the P2P polls come while events are still queued for the sync loop.",
    "C03": " In the whole-node attacks the adversarial peer is also a lying exchange server (listed by the victims as a configured peer) that answers header-exchange requests with headers valid in themselves at the requested height, the next one or far above.",
    "C08": " In the real-loops family the DA layer answers after 0-9 s.",
    "C09": " Followers run with a seeded pending-block limit; a quarter of the scenarios use a chain with a custom signature payload provider; one in thirty starts its first retrieve with the sync loop's input channels full.",
    "C10": " Next requests carry size limits of 0, 1, 10 bytes or 1 MiB.",
    "C11": " A third of the histories configure a pending-block limit (1-3) with steps in which only one of the two submission loops gets its turn.",
    "C13": " The sync-service interleavings (first item vs head lookups, restart, duplicate appends as go-header's syncer produces them) are enumerated under a park-and-release scheduler (process death and deadlock verdicts) and run free-running in a race-detector build; whole-node timelines have slow goroutines (scheduling jitter), a DA layer that does not watch the caller's context, and inclusion liveness for a sequencer that was never killed.",
    "C14": " Heights are offset per scenario by 0, 250, 2^32, 2^49, 2^56-4, 2^62 or 2^64-17; the signature stored beside a block is its own bytes, the header's, or empty.",
    "C15": " Application keys next to, below and above the reserved ones are written too.",
    "C16": " One scenario in twelve runs at the client's built-in production size limit (1 974 272 bytes) with blobs of that order.",
    "C19": " Six key files written by the tree as it was when the check was built (passphrases of 1-4096 bytes) are stored with the check and must keep loading; near misses include digests and prefixes of the right passphrase.",
    "C20": " A quarter of the scenarios use commitment-style blob ids with the same blob more than once in a height; one in twenty-five has transactions of 300-700 kB.",
}

def main():
    try:
        commits = subprocess.check_output(["git", "-C", "/repo", "log", "--format=%H %s"], text=True).splitlines()
    except Exception:
        commits = []
    hook_commits = [c.split()[0] for c in commits if " verif:" in c or c.split(" ", 1)[1].startswith("verif")]
    checks = []
    for pid in ALL:
        if pid not in CHECKS:
            continue
        level, tech, text, note, ref, engine = CHECKS[pid]
        checks.append({
            "property_id": pid,
            "quick_cmd": "bin/check %s quick" % pid,
            "thorough_cmd": "bin/check %s thorough" % pid,
            "evidence_file": "/verif/evidence/%s.json" % pid,
            "replay_cmd_template": "bin/check %s quick --replay {path}" % pid,
            "engine": engine,
            "level_claimed": {"category": level, "text": text + EXTRA.get(pid, ""), "design_ref": ref},
            "level_note": note,
            "technique": tech,
        })
    na = []
    for pid in ALL:
        if pid in CHECKS:
            continue
        na.append({"property_id": pid, "reason": NOT_APPLICABLE.get(pid, PENDING)})
    manifest = {
        "version": 1,
        "setup_cmd": "python3 tools/gen_gomod.py && bin/check --build-only",
        "hooks": {
            "guard": "verif (Go build tag)",
            "enable": "go1.26.8 test -c -tags verif (harness module replaces the ev-node modules with /repo's working tree)",
            "baseline_off_cmd": "for m in $(cat /w/out/gomods.txt); do MF=$(cd /repo/$m && . /w/out/goenv.sh && gomodflag); (cd /repo/$m && go test $MF -json -vet=off -count=1 -timeout 25m ./...); done",
            "source_commits": hook_commits,
            "add_only": True,
        },
        "engines": [
            {"name": "stepsim", "path": "harness/checks", "serves_properties": [p for p in ALL if p in CHECKS and CHECKS[p][5] == "stepsim"],
             "kind_free_text": "deterministic step simulator: real rollkit code inside a go1.26 testing/synctest bubble (fake clock), harness is the only scheduler, simulated disk/DA/execution/P2P stores, seeded scenarios, shrinking, exact replay"},
            {"name": "netsim", "path": "harness/netsim", "serves_properties": [p for p in ALL if p in CHECKS and CHECKS[p][5] == "netsim"],
             "kind_free_text": "Manager-level whole-node runs: all background loops as real goroutines under the fake clock and the race detector; seeded stimuli/faults/stop instants; schedule-independent oracles"},
            {"name": "wholenode", "path": "harness/checks (c13whole, c13restart, c03whole, c04whole, c05whole)", "serves_properties": ["C03", "C04", "C05", "C13"],
             "kind_free_text": "real node.FullNode / node.LightNode incarnations (real Run: P2P client, go-header stores and gossipsub over a libp2p mocknet, all loops, shutdown) over one durable image per node under the fake clock: stop/kill/start/cut/heal timelines, k-th-durable-write crash families, adversarial gossip peer and third-party sequencer node; no race detector; interleaving by the Go scheduler, replay best-effort"},
            {"name": "parksched", "path": "harness/sim/parksched.go", "serves_properties": ["C10", "C13"],
             "kind_free_text": "park-and-release scheduler: real goroutines park at every simulated-datastore operation and are released one at a time from the seeded PRNG or an explicit choice script; blocked tasks are recognised from goroutine states; exact replay of the recorded schedule"},
        ],
        "checks": checks,
        "not_applicable": na,
        "notes": "Technique family: deterministic simulation with fault injection. See DESIGN.md. known_findings.json lists genuine defects (known/fixed).",
    }
    with open(os.path.join(ROOT, "MANIFEST.json"), "w") as f:
        json.dump(manifest, f, indent=1)
        f.write("\n")
    print("MANIFEST.json: %d checks, %d not_applicable" % (len(checks), len(na)))


if __name__ == "__main__":
    main()
