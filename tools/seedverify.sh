#!/bin/bash
# tools/seedverify.sh <worktree> <seeddir> <module dir rel> <pkg> <test pattern>
# Confirms in the sub-agent's worktree: demo fails with the change, touched package's suite passes, demo passes without.
wt=$1; sd=$2; mod=$3; pkg=$4; pat=$5
export GOFLAGS=-mod=mod GOPROXY=off
cd $wt/$mod || exit 2
a=$(go test -vet=off -count=1 -run "$pat" $pkg 2>&1 | tail -1)
b=$(go test -vet=off -count=1 -skip "$pat" $pkg 2>&1 | tail -1)
(cd $wt && git apply -R $sd/patch.diff) || echo "REVERSE FAILED"
c=$(go test -vet=off -count=1 -run "$pat" $pkg 2>&1 | tail -1)
(cd $wt && git apply $sd/patch.diff)
echo "$(basename $sd): demo+change=[$a] suite+change=[$b] demo-change=[$c]"
