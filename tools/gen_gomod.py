#!/usr/bin/env python3
"""Generate /verif/harness/go.mod and go.sum from the repo's own go.mod files.

The harness module must pin the union of all `require` lines of the ev-node modules it links
(max version per module) and `replace` the ev-node modules to their directories under the repo,
otherwise module resolution needs the network.  go.sum is the sorted union of the repo go.sums
plus the sums of the extra verification modules already present in the module cache.
"""
import os
import re
import sys

REPO = os.environ.get("VERIF_REPO", "/repo")
OUT = os.path.join(os.path.dirname(os.path.abspath(__file__)), "..", "harness")
MODS = [".", "core", "da", "sequencers/single", "sequencers/based", "apps/testapp"]
EVMODS = {
    "github.com/evstack/ev-node": ".",
    "github.com/evstack/ev-node/core": "core",
    "github.com/evstack/ev-node/da": "da",
    "github.com/evstack/ev-node/sequencers/single": "sequencers/single",
    "github.com/evstack/ev-node/sequencers/based": "sequencers/based",
    "github.com/evstack/ev-node/apps/testapp": "apps/testapp",
}
EXTRA = {
    "github.com/anishathalye/porcupine": "v1.3.0",
    "pgregory.net/rapid": "v1.3.0",
}


def vkey(v):
    # semantic-ish ordering good enough for max(); pseudo versions compare lexicographically inside
    m = re.match(r"v(\d+)\.(\d+)\.(\d+)(.*)", v)
    if not m:
        return (0, 0, 0, 0, v)
    rest = m.group(4)
    # a release sorts after its pre-releases
    return (int(m.group(1)), int(m.group(2)), int(m.group(3)), 1 if rest == "" or rest.startswith("+") else 0, rest)


def parse_requires(path):
    req = {}
    inblock = False
    for line in open(path):
        s = line.split("//")[0].strip()
        if s.startswith("require ("):
            inblock = True
            continue
        if inblock and s == ")":
            inblock = False
            continue
        m = None
        if inblock:
            m = re.match(r"(\S+)\s+(\S+)", s)
        elif s.startswith("require "):
            m = re.match(r"require\s+(\S+)\s+(\S+)", s)
        if m:
            req[m.group(1)] = m.group(2)
    return req


def main():
    req = {}
    sums = set()
    for m in MODS:
        d = os.path.join(REPO, m)
        for mod, ver in parse_requires(os.path.join(d, "go.mod")).items():
            if mod in EVMODS:
                continue
            if mod not in req or vkey(ver) > vkey(req[mod]):
                req[mod] = ver
        sp = os.path.join(d, "go.sum")
        if os.path.exists(sp):
            sums.update(l.rstrip("\n") for l in open(sp) if l.strip())
    for mod, ver in EXTRA.items():
        if mod not in req or vkey(ver) > vkey(req[mod]):
            req[mod] = ver
    os.makedirs(OUT, exist_ok=True)
    with open(os.path.join(OUT, "go.mod"), "w") as f:
        f.write("module verif/harness\n\ngo 1.26\n\n")
        f.write("require (\n")
        for mod in EVMODS:
            f.write("\t%s v0.0.0-00010101000000-000000000000\n" % mod)
        for mod in sorted(req):
            f.write("\t%s %s\n" % (mod, req[mod]))
        f.write(")\n\nreplace (\n")
        for mod, d in EVMODS.items():
            f.write("\t%s => %s\n" % (mod, os.path.normpath(os.path.join(REPO, d))))
        f.write(")\n")
    # extra sums from module cache
    cache = os.path.expanduser(os.environ.get("GOMODCACHE", "~/go/pkg/mod"))
    for mod, ver in EXTRA.items():
        base = os.path.join(cache, "cache", "download", mod, "@v")
        for suffix, tag in ((".ziphash", ""), (".mod", "/go.mod")):
            p = os.path.join(base, ver + suffix)
            if suffix == ".ziphash" and os.path.exists(p):
                sums.add("%s %s %s" % (mod, ver, open(p).read().strip()))
    with open(os.path.join(OUT, "go.sum"), "w") as f:
        for l in sorted(sums):
            f.write(l + "\n")
    print("generated %s/go.mod (%d requires) and go.sum (%d lines)" % (os.path.normpath(OUT), len(req), len(sums)))


if __name__ == "__main__":
    sys.exit(main())
