package netsim
