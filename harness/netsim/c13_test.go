package netsim

import (
	"bytes"
	"context"
	"fmt"
	"math/rand/v2"
	"os"
	"path/filepath"
	"sort"
	"strings"
	"sync"
	"testing"
	"time"

	"verif/harness/sim"
)

// C13 — concurrent background loops are race-free, keep invariants, and stop promptly.
//
// Engine N, Manager-level configuration: every background activity of an aggregator (aggregation loop,
// reaper, header and data submission loops, DA includer) and of a full node (DA retrieve loop, P2P header
// and data store loops, sync loop, DA includer) runs as a real goroutine, concurrently, under the fake
// clock and the race detector, against the simulated DA / execution layer / disk; a gossip goroutine
// feeds the full node's P2P stores from what the aggregator broadcast. Stimuli (transactions, DA faults,
// DA and execution latencies) and the stop instant are seeded. Oracles hold on every schedule: no race
// report, every worker returns within 1 s of simulated time after the stop, and post-mortem the chains
// and watermarks satisfy the C01/C02/C06/C07 invariants.

var raceLog = os.Getenv("VERIF_RACE_LOG")

func raceLogSize() int64 {
	if raceLog == "" {
		return 0
	}
	ms, _ := filepath.Glob(raceLog + ".*")
	var n int64
	for _, m := range ms {
		if st, err := os.Stat(m); err == nil {
			n += st.Size()
		}
	}
	return n
}

func raceLogText() string {
	ms, _ := filepath.Glob(raceLog + ".*")
	var sb strings.Builder
	for _, m := range ms {
		b, _ := os.ReadFile(m)
		sb.Write(b)
	}
	s := sb.String()
	if len(s) > 6000 {
		s = s[len(s)-6000:]
	}
	return s
}

type worker struct {
	name string
	done chan struct{}
	ret  time.Duration // simulated time after the stop at which it returned
}

func c13Run(t *testing.T, s *sim.Scn) *sim.Outcome {
	o := sim.NewOutcome()
	before := raceLogSize()
	// a wall-clock budget per scenario (they take about a second): a goroutine of the node that spins without ever
	// waiting keeps the bubble from becoming idle, the simulated clock stops and the scenario would never end
	p, dump := sim.BubbleWall(t, func() { c13Body(t, s, o) }, 60*time.Second)
	if p == sim.BubbleStalled {
		o.V = nil
		if site := spinSite(dump); site != "" {
			o.Fail("C13/activity-spins-without-waiting", "C13/activity-spins-without-waiting/"+site, -1,
				fmt.Sprintf("the simulated clock stopped because a goroutine of the node keeps running without waiting for anything (for more than a minute of real time): %s", site),
				"every activity waits for its next event or returns - in particular when the node is asked to stop")
		} else {
			o.Count("inconclusive:simulated-clock-stalled", 1)
			o.NonTrivial = false
		}
		return o
	}
	if p != nil {
		msg := fmt.Sprint(p)
		if msg == sim.BubbleAborted {
			if raceLogSize() > before && strings.Contains(raceLogText(), "DATA RACE") {
				o.Fail("C13/data-race", "C13/data-race/"+raceSite(raceLogText()), -1, raceLogText(), "no data race between the background activities")
			} else {
				o.Fail("C13/bubble-aborted", "", -1, msg, "the run completes")
			}
		} else if false {
		} else if strings.Contains(msg, "deadlock") {
			o.Fail("C13/goroutines-left-blocked", "", -1, msg, "no goroutine is left blocked after shutdown")
		} else {
			o.Fail("C13/panic", "", -1, msg, "no panic")
		}
	}
	if after := raceLogSize(); after > before && o.V == nil && strings.Contains(raceLogText(), "DATA RACE") {
		o.Fail("C13/data-race", "C13/data-race/"+raceSite(raceLogText()), -1, raceLogText(), "no data race between the background activities")
	}
	return o
}

// spinSite: the function of the repository's block package in which a goroutine of the stalled bubble is running
// or runnable ("" if there is none: then the stall is not attributed to the code under test).
func spinSite(dump string) string {
	for _, blk := range strings.Split(dump, "\n\n") {
		head := strings.SplitN(blk, "\n", 2)[0]
		if !strings.Contains(head, "synctest bubble") || !(strings.Contains(head, "[running") || strings.Contains(head, "[runnable")) {
			continue
		}
		for _, l := range strings.Split(blk, "\n") {
			if strings.HasPrefix(l, "github.com/evstack/ev-node/block.") {
				f := strings.TrimPrefix(l, "github.com/evstack/ev-node/")
				if i := strings.LastIndex(f, "("); i > 0 {
					f = f[:i]
				}
				return strings.NewReplacer("(", "", ")", "", "*", "").Replace(f)
			}
		}
	}
	return ""
}

// raceSite extracts the first repo frame of a race report for a stable signature.
func raceSite(rep string) string {
	for _, l := range strings.Split(rep, "\n") {
		l = strings.TrimSpace(l)
		if strings.HasPrefix(l, "github.com/evstack/ev-node/") && strings.HasSuffix(l, ")") {
			f := strings.TrimPrefix(l, "github.com/evstack/ev-node/")
			if i := strings.LastIndex(f, "("); i > 0 {
				f = f[:i]
			}
			return strings.NewReplacer("(", "", ")", "", "*", "").Replace(f)
		}
	}
	return "unknown"
}

func c13Body(t *testing.T, s *sim.Scn, o *sim.Outcome) {
	start := time.Now()
	bt := time.Duration(max64(50, s.Cfg["bt"])) * time.Millisecond
	dat := time.Duration(max64(500, s.Cfg["dat"])) * time.Millisecond
	_ = s.Cfg["run"]
	stopAt := time.Duration(s.Cfg["stop"]%max64(1, s.Cfg["run"]+1)) * time.Millisecond
	future := time.Duration(s.Cfg["future"]) * time.Millisecond
	w := sim.NewWorld(t, "c13", 1)
	defer w.Close()
	w.Genesis.GenesisDAStartTime = time.Now().Add(future)
	agg := w.AddNode(sim.NodeCfg{Name: "seq", Aggregator: true, BlockTime: bt, DABlockTime: dat, LazyMode: s.Cfg["lazy"] == 1, LazyInterval: 5 * bt, MaxPending: uint64(s.Cfg["maxpending"]), MempoolTTL: 1,
		GasPrice: float64(s.Cfg["gas"]), GasMultiplier: 1.5 * float64(s.Cfg["gas"])})
	if err := agg.StartNode(); err != nil {
		o.Fail("C13/cannot-start", "", -1, err.Error(), "starts")
		return
	}
	withFull := s.Cfg["full"] == 1
	var full *sim.Node
	if withFull {
		full = w.AddNode(sim.NodeCfg{Name: "full", BlockTime: bt, DABlockTime: dat})
		full.NoP2PLoops = true
		if err := full.StartNode(); err != nil {
			o.Fail("C13/cannot-start", "", -1, err.Error(), "starts")
			return
		}
	}
	if j := s.Cfg["jitter"]; j > 0 {
		// slow goroutines: about one in three yields the processor j times at each of its datastore operations
		agg.Disk.Yield = sim.SpinJitter(j, uint64(s.Cfg["jsalt"]))
		if full != nil {
			full.Disk.Yield = sim.SpinJitter(j, uint64(s.Cfg["jsalt"]))
		}
		o.Count("fault:disk-scheduling-jitter", 1)
	}
	w.DA.Latency = time.Duration(s.Cfg["dalat"]) * time.Millisecond
	agg.Exec.Latency = time.Duration(s.Cfg["execlat"]) * time.Millisecond
	if full != nil {
		full.Exec.Latency = agg.Exec.Latency
	}
	for _, op := range s.Ops {
		if op.K == "da" {
			w.DA.SubmitScript = append(w.DA.SubmitScript, sim.SubmitOutcome{Kind: sim.SubmitKind(op.A % 10), N: int(op.B), Advance: false})
		}
	}
	ledger := sim.NewLedger(w, agg)
	ctx, cancel := context.WithCancel(context.Background())
	actx, acancel := context.WithCancel(ctx)
	fctx, fcancel := context.WithCancel(ctx)
	defer fcancel()
	defer acancel()
	var mu sync.Mutex
	var workers []*worker
	var stopped time.Time
	spawn := func(name string, f func()) {
		wk := &worker{name: name, done: make(chan struct{})}
		mu.Lock()
		workers = append(workers, wk)
		mu.Unlock()
		go func() {
			defer func() {
				mu.Lock()
				if !stopped.IsZero() {
					wk.ret = time.Since(stopped)
				}
				mu.Unlock()
				close(wk.done)
			}()
			f()
		}()
	}
	aErr := make(chan error, 4)
	fErr := make(chan error, 4)
	spawn("seq/aggregation", func() { agg.M.AggregationLoop(actx, aErr) })
	spawn("seq/reaper", func() { agg.Reaper.Start(actx) })
	spawn("seq/header-submission", func() { agg.M.HeaderSubmissionLoop(actx) })
	spawn("seq/data-submission", func() { agg.M.DataSubmissionLoop(actx) })
	spawn("seq/da-includer", func() { agg.M.DAIncluderLoop(actx, aErr) })
	if full != nil {
		spawn("full/retrieve", func() { full.M.RetrieveLoop(fctx) })
		spawn("full/header-store", func() { full.M.HeaderStoreRetrieveLoop(fctx) })
		spawn("full/data-store", func() { full.M.DataStoreRetrieveLoop(fctx) })
		spawn("full/sync", func() { full.M.SyncLoop(fctx, fErr) })
		spawn("full/da-includer", func() { full.M.DAIncluderLoop(fctx, fErr) })
	}
	// environment goroutines (harness side)
	envDone := make(chan struct{})
	var envWG sync.WaitGroup
	env := func(f func()) {
		envWG.Add(1)
		go func() { defer envWG.Done(); f() }()
	}
	env(func() { // DA heights appear over time
		tk := time.NewTicker(dat)
		defer tk.Stop()
		for {
			select {
			case <-envDone:
				return
			case <-tk.C:
				w.DA.Advance(1)
			}
		}
	})
	env(func() { // error channels: a real node shuts down on an unrecoverable error
		for {
			select {
			case <-envDone:
				return
			case err := <-aErr:
				o.Logf("aggregator loop error: %v", err)
				acancel()
			case err := <-fErr:
				o.Logf("full node loop error: %v", err)
				fcancel()
			}
		}
	})
	if full != nil {
		env(func() { // gossip: what the aggregator broadcast reaches the full node's P2P stores a little later
			tk := time.NewTicker(37 * time.Millisecond)
			defer tk.Stop()
			hn, dn := 0, 0
			for {
				select {
				case <-envDone:
					return
				case <-tk.C:
					hs, ds := agg.HB.All(), agg.DB.All()
					for ; hn < len(hs); hn++ {
						full.HStore.Put(hs[hn].Height(), sim.CloneHeader(hs[hn]))
						full.HStore.SetHeight(hs[hn].Height())
					}
					for ; dn < len(ds); dn++ {
						if ds[dn].Metadata != nil {
							full.DStore.Put(ds[dn].Metadata.Height, sim.CloneData(ds[dn]))
							full.DStore.SetHeight(ds[dn].Metadata.Height)
						}
					}
				}
			}
		})
	}
	// observers: the public, concurrently callable getters of the manager are what RPC handlers, metrics and
	// the node's own status reporting call from other goroutines in a deployment
	var obsMu sync.Mutex
	obsViolation := ""
	observe := func(n *sim.Node) {
		env(func() {
			tk := time.NewTicker(53 * time.Millisecond)
			defer tk.Stop()
			for {
				select {
				case <-envDone:
					return
				case <-tk.C:
					st := n.M.GetLastState()
					// the execution layer is asked to finalize a height before that height is reported:
					// whatever is reported now must already be in the finalize log
					if d := n.M.GetDAIncludedHeight(); d > n.Exec.MaxFinalized() {
						obsMu.Lock()
						if obsViolation == "" {
							obsViolation = fmt.Sprintf("%s reports DA-included height %d while the execution layer has only been asked to finalize up to %d", n.Cfg.Name, d, n.Exec.MaxFinalized())
						}
						obsMu.Unlock()
					}
					h, _ := n.M.GetStoreHeight(ctx)
					if h > 0 {
						_, _ = n.M.IsDAIncluded(ctx, h)
					}
					_ = n.M.IsBlockHashSeen("00")
					_ = n.M.PendingHeaders()
					_ = st.LastBlockHeight
				}
			}
		})
	}
	observe(agg)
	if full != nil {
		observe(full)
	}
	type inj struct {
		at time.Duration
		n  int
	}
	var injs []inj
	for i, op := range s.Ops {
		if op.K == "tx" {
			injs = append(injs, inj{time.Duration(op.A%max64(1, s.Cfg["run"]))*time.Millisecond + time.Duration(i+1)*time.Microsecond, 1 + int(op.B%3)})
		}
	}
	sort.Slice(injs, func(i, j int) bool { return injs[i].at < injs[j].at })
	env(func() {
		n := 0
		for _, in := range injs {
			d := in.at - time.Since(start)
			if d > 0 {
				select {
				case <-envDone:
					return
				case <-time.After(d):
				}
			}
			for j := 0; j < in.n; j++ {
				n++
				agg.Exec.InjectTx([]byte(fmt.Sprintf("k%d=v%d", n, n)))
			}
		}
	})
	// run until the stop instant, then ask everything to stop
	time.Sleep(stopAt)
	mu.Lock()
	stopped = time.Now()
	mu.Unlock()
	cancel()
	limit := 30 * time.Second
	var slow []string
	for _, wk := range workers {
		select {
		case <-wk.done:
		case <-time.After(limit - time.Since(stopped)):
			slow = append(slow, wk.name+" (still running 30s after the stop)")
		}
	}
	for _, wk := range workers {
		// a late worker is still awaited so that the bubble can end - but not for ever
		select {
		case <-wk.done:
		case <-time.After(10 * time.Minute):
			sim.EmergencyReport("C13", s, &sim.Violation{Oracle: "C13/worker-never-stops", Sig: "C13/worker-never-stops/" + wk.name, Step: -1,
				Observed: fmt.Sprintf("asked to stop at %v: %s is still running 10 minutes of simulated time later", stopAt, wk.name), Expected: "every activity returns when the node is asked to stop"})
		}
	}
	close(envDone)
	envWG.Wait()
	o.SimTime = time.Since(start)
	var worst time.Duration
	worstName := ""
	for _, wk := range workers {
		if wk.ret > worst {
			worst, worstName = wk.ret, wk.name
		}
	}
	o.Logf("stop at %v (genesis in %v): slowest worker %s returned after %v; heights seq=%d", stopAt, future, worstName, worst, agg.Height())
	if worst > time.Second {
		phase := "running"
		if stopAt < future+bt {
			phase = "start-up-delay"
		}
		o.Fail("C13/worker-does-not-stop-promptly", "C13/worker-does-not-stop-promptly/"+worstName+"/"+phase, -1,
			fmt.Sprintf("asked to stop at %v (genesis %v in the future, block time %v): %s returned %v of simulated time later %v", stopAt, future, bt, worstName, worst, slow),
			"every activity returns promptly (within 1 s) when the node is asked to stop")
		return
	}
	if obsViolation != "" {
		o.Fail("C13/invariant-C07-violated", "C13/invariant-C07-violated/reported-before-finalized", -1, obsViolation, "finalize before report, on every interleaving")
		return
	}
	// post-mortem invariants
	_ = agg.M.SaveCache()
	if h := agg.Height(); h >= 1 {
		if msg, _ := w.VerifyChain(agg.Peek(), 1, h, nil); msg != "" {
			o.Fail("C13/invariant-C01-violated", "", -1, msg, "the committed chain is valid on every interleaving")
			return
		}
		o.Count("blocks-produced", int(h))
	}
	if msg := ledger.CheckSubmissions(); msg != "" {
		o.Fail("C13/invariant-C06-violated", "", -1, msg, "submissions and watermarks are sound on every interleaving")
		return
	}
	if dai := agg.M.GetDAIncludedHeight(); dai > agg.Height() {
		o.Fail("C13/invariant-C07-violated", "", -1, fmt.Sprintf("DA-included height %d exceeds chain height %d", dai, agg.Height()), "DA-included <= chain height")
		return
	}
	if msg := sim.CheckFinalizeOrder(agg.Exec); msg != "" {
		o.Fail("C13/invariant-C07-violated", "", -1, "sequencer: "+msg, "finalize calls in order")
		return
	}
	if full != nil {
		fh := full.Height()
		ctx := context.Background()
		for x := uint64(1); x <= fh; x++ {
			a, _, err1 := agg.Peek().GetBlockData(ctx, x)
			b, _, err2 := full.Peek().GetBlockData(ctx, x)
			if err1 != nil || err2 != nil || !bytes.Equal(a.Hash(), b.Hash()) {
				o.Fail("C13/invariant-C02-violated", "", -1, fmt.Sprintf("full node height %d: block %d differs from the proposer's or is missing (%v/%v)", fh, x, err1, err2), "the full node's chain is a prefix of the proposer's")
				return
			}
		}
		if msg := sim.CheckFinalizeOrder(full.Exec); msg != "" {
			o.Fail("C13/invariant-C07-violated", "", -1, "full node: "+msg, "finalize calls in order")
			return
		}
		o.Count("blocks-synced", int(fh))
	}
	for k, v := range w.DA.Stats {
		o.Count("da:"+k, v)
	}
	o.States = append(o.States, agg.AbstractState())
	o.NonTrivial = true
}

func max64(a, b int64) int64 {
	if a > b {
		return a
	}
	return b
}

func c13Gen(r *rand.Rand, tier string) *sim.Scn {
	run := int64(5000 + r.IntN(60000))
	if tier == "thorough" {
		run = int64(10000 + r.IntN(290000))
	}
	s := &sim.Scn{Cfg: map[string]int64{
		"bt": []int64{100, 250, 1000, 2000}[r.IntN(4)], "dat": []int64{1000, 3000, 6000}[r.IntN(3)], "run": run, "stop": r.Int64N(run + 1),
		"lazy": r.Int64N(2), "maxpending": []int64{0, 0, 2, 5}[r.IntN(4)], "full": int64(r.IntN(4) / 1 % 2), "dalat": []int64{0, 5, 50, 300}[r.IntN(4)], "execlat": []int64{0, 0, 20, 400}[r.IntN(4)],
		"jitter": []int64{0, 0, 0, 0, 200, 1000}[r.IntN(6)], "jsalt": r.Int64N(1 << 30), "gas": r.Int64N(2),
	}}
	if r.IntN(3) == 0 {
		s.Cfg["future"] = int64(1000 + r.IntN(120000))
		if r.IntN(2) == 0 {
			s.Cfg["stop"] = r.Int64N(s.Cfg["future"] + 1) // stop during the start-up delay
			if s.Cfg["stop"] > run {
				s.Cfg["stop"] = run
			}
		}
	}
	if r.IntN(2) == 0 {
		s.Cfg["full"] = 1
	} else {
		s.Cfg["full"] = 0
	}
	ntx := r.IntN(60)
	for i := 0; i < ntx; i++ {
		s.Ops = append(s.Ops, sim.Op{K: "tx", A: r.Int64N(run), B: r.Int64N(3)})
	}
	nf := r.IntN(12)
	for i := 0; i < nf; i++ {
		s.Ops = append(s.Ops, sim.Op{K: "da", A: []int64{1, 2, 3, 4, 5, 6, 7, 9}[r.IntN(8)], B: r.Int64N(4)})
	}
	return s
}

func TestC13(t *testing.T) {
	if raceLog == "" {
		fmt.Println("INFRA: VERIF_RACE_LOG not set (bin/check sets it together with GORACE)")
		os.Exit(2)
	}
	sim.Main(t, &sim.Check{
		ID:    "C13",
		Level: "exploration",
		Rule: "whole-node runs under the fake clock with the race detector: all 5 background activities of an aggregator and (in half of the runs) all 5 of a full node as real concurrent goroutines, seeded block time 0.1-2 s, DA block time 1-6 s, lazy/normal mode, pending limit, genesis in the past or up to 120 s in the future, transaction arrivals, DA submit faults, DA latency 0-300 ms and execution latency 0-400 ms (time dilation), run length 5-65 s (thorough up to 300 s) and a seeded stop instant (biased into the start-up delay when genesis is in the future). " +
			"distinct = distinct scenario hash; non-trivial = every run (each has concurrent loops and a stop instant)",
		Assumptions:    []string{"the Go scheduler resolves same-instant ties: runs are seed-exact for stimuli and faults, best-effort for the interleaving; only schedule-independent oracles are used", "P2P transport is replaced by a gossip goroutine feeding harness-owned stores (go-header/libp2p run only in the whole-FullNode configuration)", "all doubles honour cancellation"},
		Components:     map[string]string{"block.Manager loops (aggregation, submission x2, DA includer, retrieve, P2P store x2, sync), block.Reaper": "real, concurrent goroutines", "sequencers/single": "real", "pkg/store, pkg/cache": "real", "DA": "stub (SimDA, time-driven heights)", "executor": "stub (SimExec with latency)", "P2P": "stub (gossip goroutine + P2PStore)", "race detector": "on"},
		Gen:            c13Gen,
		Run:            c13Run,
		Workers:        6,
		ReplayAttempts: 20,
		QuickBudget:    40 * time.Second, ThoroughBudget: 15 * time.Minute,
	})
}
