package sim

import (
	"crypto/sha256"
	"encoding/hex"
	"encoding/json"
	"fmt"
	"math/rand/v2"
	"os"
	"path/filepath"
	"runtime/debug"
	"sort"
	"strconv"
	"strings"
	"sync"
	"testing"
	"time"
)

// Op is one operation of a scenario: plain data so that scenarios can be shrunk and replayed.
type Op struct {
	K string `json:"k"`
	A int64  `json:"a,omitempty"`
	B int64  `json:"b,omitempty"`
	C int64  `json:"c,omitempty"`
	S string `json:"s,omitempty"`
}

func (o Op) String() string {
	s := o.K
	if o.A != 0 || o.B != 0 || o.C != 0 {
		s += fmt.Sprintf("(%d,%d,%d)", o.A, o.B, o.C)
	}
	if o.S != "" {
		s += "[" + o.S + "]"
	}
	return s
}

// Scn is a scenario: a configuration record and a list of operations.
type Scn struct {
	Cfg map[string]int64 `json:"cfg"`
	Ops []Op             `json:"ops"`
}

func (s *Scn) Clone() *Scn {
	n := &Scn{Cfg: map[string]int64{}, Ops: append([]Op(nil), s.Ops...)}
	for k, v := range s.Cfg {
		n.Cfg[k] = v
	}
	return n
}

func (s *Scn) Hash() string {
	b, _ := json.Marshal(s)
	h := sha256.Sum256(b)
	return hex.EncodeToString(h[:8])
}

// KindSeq is the sequence of operation kinds (the "interleaving" measure).
func (s *Scn) KindSeq() string {
	ks := make([]string, len(s.Ops))
	for i, o := range s.Ops {
		ks[i] = o.K
	}
	return strings.Join(ks, ",")
}

// Violation describes a failed oracle.
type Violation struct {
	Oracle   string `json:"oracle"`    // e.g. C04/wedged-after-restart
	Sig      string `json:"signature"` // oracle + trigger facts; the unit of known-finding matching
	Step     int    `json:"step"`
	Observed string `json:"observed"`
	Expected string `json:"expected"`
}

func (v *Violation) String() string {
	return fmt.Sprintf("%s step=%d observed=%q expected=%q", v.Sig, v.Step, v.Observed, v.Expected)
}

// Outcome is what one scenario execution reports.
type Outcome struct {
	V          *Violation
	NonTrivial bool              // by the check's stated rule
	Counters   map[string]int    // faults fired, probes hit
	States     []string          // abstract states visited (hashed by the driver)
	SimTime    time.Duration     // simulated time covered
	Log        []string          // canonical event log (determinism unit)
	Extra      map[string]string // free-form facts for samples
	KnownHits  map[string]string // known-finding signatures hit by members of a family (signature -> observed)
}

var (
	knownMu   sync.Mutex
	knownSigs = map[string]bool{}
)

// IsKnown reports whether a violation signature is listed as a known finding for the running check.
func IsKnown(sig string) bool {
	knownMu.Lock()
	defer knownMu.Unlock()
	return knownSigs[sig]
}

// Absorb merges the outcome of one member of a family into o. A member violation that is a known
// finding is recorded and does not end the family; any other violation becomes o.V.
func (o *Outcome) Absorb(sub *Outcome) {
	for k, v := range sub.Counters {
		o.Counters[k] += v
	}
	o.States = append(o.States, sub.States...)
	o.Log = append(o.Log, sub.Log...)
	o.SimTime += sub.SimTime
	if sub.V != nil {
		if IsKnown(sub.V.Sig) {
			if o.KnownHits == nil {
				o.KnownHits = map[string]string{}
			}
			if _, ok := o.KnownHits[sub.V.Sig]; !ok {
				o.KnownHits[sub.V.Sig] = sub.V.Observed
			}
		} else if o.V == nil {
			o.V = sub.V
		}
	}
	for k, v := range sub.KnownHits {
		if o.KnownHits == nil {
			o.KnownHits = map[string]string{}
		}
		o.KnownHits[k] = v
	}
}

func NewOutcome() *Outcome {
	return &Outcome{Counters: map[string]int{}}
}

func (o *Outcome) Count(name string, n int) { o.Counters[name] += n }
func (o *Outcome) Logf(format string, args ...any) {
	o.Log = append(o.Log, fmt.Sprintf(format, args...))
}
func (o *Outcome) Fail(oracle, sig string, step int, observed, expected string) {
	if o.V == nil {
		if sig == "" {
			sig = oracle
		}
		o.V = &Violation{Oracle: oracle, Sig: sig, Step: step, Observed: observed, Expected: expected}
	}
}
func (o *Outcome) LogHash() string {
	h := sha256.New()
	for _, l := range o.Log {
		h.Write([]byte(l))
		h.Write([]byte{'\n'})
	}
	return hex.EncodeToString(h.Sum(nil)[:8])
}

// Check describes one property check.
type Check struct {
	ID          string
	Level       string // exploration | fault_enumeration
	Rule        string // how cases are generated; what makes one non-trivial / distinct
	Assumptions []string
	Components  map[string]string // component -> real | stub(...)
	// Gen draws one scenario. tier is "quick" or "thorough".
	Gen func(r *rand.Rand, tier string) *Scn
	// Run executes one scenario deterministically.
	Run func(t *testing.T, s *Scn) *Outcome
	// Directed scenarios run first in every invocation (e.g. known-finding reproducers, regression seeds).
	Directed []*Scn
	// CfgMin gives the simplest value per config key for shrinking (default 0).
	CfgMin map[string]int64
	// QuickBudget / ThoroughBudget are wall-clock budgets for the random phase.
	QuickBudget, ThoroughBudget time.Duration
	// MaxScenarios caps the random phase per worker (0 = unlimited).
	MaxQuick, MaxThorough int
	// Workers overrides the number of parallel workers (default 16 / GOMAXPROCS).
	Workers int
	// ReplayAttempts > 1: a replay file is executed up to that many times until the violation recurs
	// (for checks whose system under test resolves same-instant ties with the runtime's random select).
	ReplayAttempts int
	// Enumerate, if set, is run once (by worker 0) after the directed scenarios: it enumerates a finite
	// space exhaustively, calling run for each scenario; it returns a description of the space.
	Enumerate func(tier string, run func(s *Scn) *Outcome) string
}

// KnownFinding is one entry of /verif/known_findings.json.
type KnownFinding struct {
	Property    string `json:"property"`
	Status      string `json:"status"` // known | fixed
	Signature   string `json:"signature"`
	Description string `json:"description"`
	Commit      string `json:"commit,omitempty"`
}

func verifRoot() string {
	if r := os.Getenv("VERIF_ROOT"); r != "" {
		return r
	}
	return "/verif"
}

func loadKnown(id string) map[string]KnownFinding {
	out := map[string]KnownFinding{}
	b, err := os.ReadFile(filepath.Join(verifRoot(), "known_findings.json"))
	if err != nil {
		return out
	}
	var all []KnownFinding
	if err := json.Unmarshal(b, &all); err != nil {
		fmt.Printf("INFRA: known_findings.json does not parse: %v\n", err)
		os.Exit(2)
	}
	for _, k := range all {
		if k.Property == id && k.Status == "known" {
			out[k.Signature] = k
		}
	}
	return out
}

type workerStats struct {
	evals      int
	nontrivial map[string]bool
	kindSeqs   map[string]bool
	states     map[string]bool
	counters   map[string]int
	simTime    time.Duration
	samples    []*Scn
	known      map[string]string // signature -> observed
	violation  *Violation
	violScn    *Scn
	ops        int
}

func newWorkerStats() *workerStats {
	return &workerStats{nontrivial: map[string]bool{}, kindSeqs: map[string]bool{}, states: map[string]bool{}, counters: map[string]int{}, known: map[string]string{}}
}

func (ws *workerStats) absorb(s *Scn, o *Outcome) {
	ws.evals++
	ws.ops += len(s.Ops)
	if o.NonTrivial {
		ws.nontrivial[s.Hash()] = true
	}
	ws.kindSeqs[hashStr(s.KindSeq())] = true
	for _, st := range o.States {
		ws.states[hashStr(st)] = true
	}
	for k, v := range o.Counters {
		ws.counters[k] += v
	}
	ws.simTime += o.SimTime
	if len(ws.samples) < 3 && o.NonTrivial {
		ws.samples = append(ws.samples, s)
	}
}

func hashStr(s string) string {
	h := sha256.Sum256([]byte(s))
	return string(h[:8])
}

// safeRun runs a scenario and converts panics of the harness/system into violations.
func safeRun(c *Check, t *testing.T, s *Scn) (o *Outcome) {
	defer func() {
		if r := recover(); r != nil {
			o = NewOutcome()
			st := string(debug.Stack())
			o.Fail(c.ID+"/panic", c.ID+"/panic/"+firstFrame(st), -1, fmt.Sprintf("panic: %v\n%s", r, trimStack(st)), "no panic")
		}
	}()
	return c.Run(t, s)
}

func firstFrame(st string) string {
	lines := strings.Split(st, "\n")
	for i, l := range lines {
		if strings.Contains(l, "panic(") && i+2 < len(lines) {
			f := strings.TrimSpace(lines[i+2])
			if j := strings.Index(f, "("); j > 0 {
				f = f[:j]
			}
			if k := strings.LastIndex(f, "/"); k >= 0 {
				f = f[k+1:]
			}
			return f
		}
	}
	return "unknown"
}

func trimStack(st string) string {
	lines := strings.Split(st, "\n")
	if len(lines) > 40 {
		lines = lines[:40]
	}
	return strings.Join(lines, "\n")
}

// Shrink minimises a failing scenario while a violation with the same oracle persists.
func Shrink(c *Check, t *testing.T, s *Scn, v *Violation, deadline time.Time) (*Scn, *Violation) {
	cur, curV := s, v
	try := func(cand *Scn) bool {
		if time.Now().After(deadline) {
			return false
		}
		o := safeRun(c, t, cand)
		// same oracle, and never into a recorded finding: a violation that is not on the list must not be
		// minimised into one that is (the report would then name the recorded finding's history)
		if o.V != nil && o.V.Oracle == v.Oracle && (IsKnown(v.Sig) || !IsKnown(o.V.Sig)) {
			cur, curV = cand, o.V
			return true
		}
		return false
	}
	improved := true
	for improved && time.Now().Before(deadline) {
		improved = false
		// 1. drop chunks of ops (ddmin-like)
		for chunk := len(cur.Ops) / 2; chunk >= 1; chunk /= 2 {
			for i := 0; i+chunk <= len(cur.Ops); {
				cand := cur.Clone()
				cand.Ops = append(append([]Op(nil), cur.Ops[:i]...), cur.Ops[i+chunk:]...)
				if try(cand) {
					improved = true
				} else {
					i += chunk
				}
			}
		}
		// 2. simplify arguments
		for i := range cur.Ops {
			for _, f := range []func(o *Op) bool{
				func(o *Op) bool {
					if o.A == 0 {
						return false
					}
					o.A = 0
					return true
				},
				func(o *Op) bool {
					if o.B == 0 {
						return false
					}
					o.B = 0
					return true
				},
				func(o *Op) bool {
					if o.C == 0 {
						return false
					}
					o.C = 0
					return true
				},
				func(o *Op) bool {
					if o.A <= 1 && o.A >= -1 {
						return false
					}
					o.A /= 2
					return true
				},
				func(o *Op) bool {
					if o.B <= 1 && o.B >= -1 {
						return false
					}
					o.B /= 2
					return true
				},
				func(o *Op) bool {
					if o.C <= 1 && o.C >= -1 {
						return false
					}
					o.C /= 2
					return true
				},
				func(o *Op) bool {
					if len(o.S) <= 1 {
						return false
					}
					o.S = o.S[:len(o.S)/2]
					return true
				},
			} {
				cand := cur.Clone()
				if f(&cand.Ops[i]) && try(cand) {
					improved = true
				}
			}
		}
		// 3. simplify config
		keys := make([]string, 0, len(cur.Cfg))
		for k := range cur.Cfg {
			keys = append(keys, k)
		}
		sort.Strings(keys)
		for _, k := range keys {
			min := c.CfgMin[k]
			if cur.Cfg[k] == min {
				continue
			}
			cand := cur.Clone()
			cand.Cfg[k] = min
			if try(cand) {
				improved = true
				continue
			}
			if d := cur.Cfg[k] - min; d > 1 || d < -1 {
				cand = cur.Clone()
				cand.Cfg[k] = min + d/2
				if try(cand) {
					improved = true
				}
			}
		}
	}
	return cur, curV
}

// EmergencyReport is for violations after which the run cannot be wound down (e.g. a worker that never
// stops keeps the bubble alive for ever): it writes the replay file, prints the VIOLATION line and ends
// the process with status 1. No shrinking, no evidence update.
func EmergencyReport(id string, s *Scn, v *Violation) {
	root := verifRoot()
	seed := envInt("VERIF_SEED", 1)
	_ = os.MkdirAll(filepath.Join(root, "replays"), 0o755)
	p := filepath.Join(root, "replays", fmt.Sprintf("%s-seed%d-emergency.json", id, seed))
	b, _ := json.MarshalIndent(ReplayFile{Engine: "netsim", Property: id, Seed: seed, Scenario: s, Violation: v}, "", " ")
	_ = os.WriteFile(p, b, 0o644)
	fmt.Printf("violation detail: %s\n", v)
	fmt.Printf("VIOLATION property=%s replay=%s\n", id, p)
	os.Exit(1)
}

// ReplayFile is what is written on a violation.
type ReplayFile struct {
	Engine    string     `json:"engine"`
	Property  string     `json:"property"`
	Seed      int64      `json:"seed"`
	Worker    int        `json:"worker"`
	Scenario  *Scn       `json:"scenario"`
	Violation *Violation `json:"violation"`
	LogTail   []string   `json:"log_tail,omitempty"`
	Original  *Scn       `json:"original_scenario,omitempty"`
}

func envInt(name string, def int64) int64 {
	if v := os.Getenv(name); v != "" {
		if n, err := strconv.ParseInt(v, 10, 64); err == nil {
			return n
		}
	}
	return def
}

// Main runs a check according to the environment: VERIF_SEED, VERIF_TIER, VERIF_REPLAY,
// VERIF_BUDGET_S (override), VERIF_DUMP (write per-scenario log hashes for the determinism test).
func Main(t *testing.T, c *Check) {
	start := time.Now()
	tier := os.Getenv("VERIF_TIER")
	if tier != "thorough" {
		tier = "quick"
	}
	seed := envInt("VERIF_SEED", 1)
	root := verifRoot()
	known := loadKnown(c.ID)
	knownMu.Lock()
	for sig := range known {
		knownSigs[sig] = true
	}
	knownMu.Unlock()

	if rp := os.Getenv("VERIF_REPLAY"); rp != "" {
		b, err := os.ReadFile(rp)
		if err != nil {
			fmt.Printf("INFRA: cannot read replay file: %v\n", err)
			os.Exit(2)
		}
		var rf ReplayFile
		if err := json.Unmarshal(b, &rf); err != nil {
			fmt.Printf("INFRA: cannot parse replay file: %v\n", err)
			os.Exit(2)
		}
		attempts := c.ReplayAttempts
		if attempts < 1 {
			attempts = 1
		}
		for a := 1; a <= attempts; a++ {
			o := safeRun(c, t, rf.Scenario)
			if o.V != nil || a == attempts {
				for _, l := range o.Log {
					fmt.Println("  log:", l)
				}
			}
			if o.V != nil {
				fmt.Printf("REPLAY reproduced (attempt %d of %d): %s\n", a, attempts, o.V)
				fmt.Printf("VIOLATION property=%s replay=%s\n", c.ID, rp)
				os.Exit(1)
			}
		}
		fmt.Printf("REPLAY: no violation in %d attempt(s)\n", attempts)
		return
	}

	budget := c.QuickBudget
	maxN := c.MaxQuick
	if tier == "thorough" {
		budget = c.ThoroughBudget
		maxN = c.MaxThorough
	}
	if b := envInt("VERIF_BUDGET_S", 0); b > 0 {
		budget = time.Duration(b) * time.Second
	}
	if n := envInt("VERIF_MAX_SCENARIOS", 0); n > 0 {
		maxN = int(n)
	}
	workers := c.Workers
	if workers == 0 {
		workers = 16
	}
	if w := envInt("VERIF_WORKERS", 0); w > 0 {
		workers = int(w)
	}
	dump := os.Getenv("VERIF_DUMP")
	deadline := start.Add(budget)
	// VERIF_INFLIGHT=<dir>: every worker leaves the scenario it is about to run in <dir>/w<k>.json (as a replay
	// file), so that a run which ends the whole process (log.Fatal / os.Exit in the code under test) can be
	// replayed by the supervisor
	inflight := os.Getenv("VERIF_INFLIGHT")
	mark := func(w int, s *Scn) {
		if inflight == "" {
			return
		}
		rf := ReplayFile{Engine: "stepsim", Property: c.ID, Seed: seed, Worker: w, Scenario: s,
			Violation: &Violation{Oracle: c.ID + "/process-ended-while-running-this-scenario", Sig: c.ID + "/process-ended", Step: -1, Observed: "the check process ended while this scenario was running", Expected: "the scenario completes"}}
		b, _ := json.Marshal(rf)
		_ = os.WriteFile(filepath.Join(inflight, fmt.Sprintf("w%d.json", w)), b, 0o644)
	}

	stats := make([]*workerStats, workers)
	dumps := make([][]string, workers)
	enumDesc := ""
	var wg sync.WaitGroup
	var stopMu sync.Mutex
	stop := false
	for w := 0; w < workers; w++ {
		stats[w] = newWorkerStats()
		wg.Add(1)
		go func(w int) {
			defer wg.Done()
			ws := stats[w]
			rng := rand.New(rand.NewPCG(uint64(seed)*1000+uint64(w), 0x5eed))
			handle := func(s *Scn, o *Outcome, origin string) bool {
				ws.absorb(s, o)
				if dump != "" {
					dumps[w] = append(dumps[w], fmt.Sprintf("%s %s %s", origin, s.Hash(), o.LogHash()))
				}
				for sig, obs := range o.KnownHits {
					if _, seen := ws.known[sig]; !seen {
						ws.known[sig] = obs
					}
				}
				if o.V == nil {
					return true
				}
				if _, ok := known[o.V.Sig]; ok {
					if _, seen := ws.known[o.V.Sig]; !seen {
						ws.known[o.V.Sig] = o.V.Observed
					}
					return true
				}
				// unknown violation: the first worker to find one shrinks, records, stops everybody
				stopMu.Lock()
				if stop {
					stopMu.Unlock()
					return false
				}
				stop = true
				stopMu.Unlock()
				min, minV := Shrink(c, t, s, o.V, time.Now().Add(60*time.Second))
				ws.violation, ws.violScn = minV, min
				rf := ReplayFile{Engine: "stepsim", Property: c.ID, Seed: seed, Worker: w, Scenario: min, Violation: minV, Original: s}
				if ro := safeRun(c, t, min); ro != nil {
					if n := len(ro.Log); n > 30 {
						rf.LogTail = ro.Log[n-30:]
					} else {
						rf.LogTail = ro.Log
					}
				}
				_ = os.MkdirAll(filepath.Join(root, "replays"), 0o755)
				p := filepath.Join(root, "replays", fmt.Sprintf("%s-seed%d-w%d.json", c.ID, seed, w))
				b, _ := json.MarshalIndent(rf, "", " ")
				_ = os.WriteFile(p, b, 0o644)
				fmt.Printf("violation detail: %s\n", minV)
				fmt.Printf("VIOLATION property=%s replay=%s\n", c.ID, p)
				return false
			}
			stopped := func() bool {
				stopMu.Lock()
				defer stopMu.Unlock()
				return stop
			}
			if w == 0 {
				for i, s := range c.Directed {
					mark(w, s)
					if !handle(s, safeRun(c, t, s), fmt.Sprintf("directed%d", i)) {
						return
					}
				}
				if c.Enumerate != nil {
					ok := true
					var emu sync.Mutex
					// run may be called from several goroutines of the enumerator; scenarios execute
					// concurrently, bookkeeping is serialised
					enumDesc = c.Enumerate(tier, func(s *Scn) *Outcome {
						emu.Lock()
						if !ok {
							emu.Unlock()
							return NewOutcome()
						}
						emu.Unlock()
						o := safeRun(c, t, s)
						emu.Lock()
						defer emu.Unlock()
						if ok {
							ok = handle(s, o, "enum")
						}
						return o
					})
					if !ok {
						return
					}
				}
			}
			if c.Gen == nil {
				return
			}
			for n := 0; (maxN == 0 || n < maxN) && time.Now().Before(deadline) && !stopped(); n++ {
				s := c.Gen(rng, tier)
				mark(w, s)
				if !handle(s, safeRun(c, t, s), fmt.Sprintf("w%d.%d", w, n)) {
					return
				}
			}
		}(w)
	}
	wg.Wait()

	// merge
	tot := newWorkerStats()
	violations := 0
	for _, ws := range stats {
		tot.evals += ws.evals
		tot.ops += ws.ops
		tot.simTime += ws.simTime
		for k := range ws.nontrivial {
			tot.nontrivial[k] = true
		}
		for k := range ws.kindSeqs {
			tot.kindSeqs[k] = true
		}
		for k := range ws.states {
			tot.states[k] = true
		}
		for k, v := range ws.counters {
			tot.counters[k] += v
		}
		for k, v := range ws.known {
			tot.known[k] = v
		}
		if len(tot.samples) < 4 {
			tot.samples = append(tot.samples, ws.samples...)
		}
		if ws.violation != nil {
			violations++
		}
	}
	sigs := make([]string, 0, len(tot.known))
	for sig := range tot.known {
		sigs = append(sigs, sig)
	}
	sort.Strings(sigs)
	for _, sig := range sigs {
		fmt.Printf("KNOWN-FINDING: property=%s %s — %s\n", c.ID, sig, known[sig].Description)
	}
	// known findings listed but not reproduced: tell the reader (not an error)
	for sig := range known {
		if _, ok := tot.known[sig]; !ok {
			fmt.Printf("note: known finding %s was not reproduced in this run\n", sig)
		}
	}
	wall := time.Since(start).Seconds()
	if len(tot.samples) > 4 {
		tot.samples = tot.samples[:4]
	}
	if len(tot.samples) == 0 {
		for _, ws := range stats {
			_ = ws
		}
	}
	samples := make([]any, 0, len(tot.samples))
	for _, s := range tot.samples {
		samples = append(samples, s)
	}
	if len(samples) == 0 && len(c.Directed) > 0 {
		samples = append(samples, c.Directed[0])
	}
	cov := map[string]any{
		"evaluations":                tot.evals,
		"distinct_nontrivial":        len(tot.nontrivial),
		"rule":                       c.Rule,
		"samples":                    samples,
		"operations_executed":        tot.ops,
		"distinct_op_kind_sequences": len(tot.kindSeqs),
		"distinct_abstract_states":   len(tot.states),
		"simulated_time_s":           tot.simTime.Seconds(),
		"scenarios_per_hour":         float64(tot.evals) / wall * 3600,
		"faults_and_probes_fired":    tot.counters,
		"workers":                    workers,
		"components":                 c.Components,
		"known_findings_reproduced":  sigs,
	}
	if enumDesc != "" {
		cov["enumerated_space"] = enumDesc
		cov["exhaustive"] = true
	}
	var zero []string
	for k, v := range tot.counters {
		if v == 0 {
			zero = append(zero, k)
		}
	}
	sort.Strings(zero)
	if len(zero) > 0 {
		cov["coverage_warnings_zero_probes"] = zero
	}
	ev := map[string]any{
		"property_id": c.ID,
		"tier":        tier,
		"seed":        seed,
		"level":       c.Level,
		"coverage":    cov,
		"assumptions": c.Assumptions,
		"wall_s":      wall,
		"violations":  violations,
	}
	if os.Getenv("VERIF_EVIDENCE_MERGE") != "" {
		mergeEvidence(filepath.Join(root, "evidence", c.ID+".json"), ev)
	}
	if os.Getenv("VERIF_NO_EVIDENCE") == "" {
		_ = os.MkdirAll(filepath.Join(root, "evidence"), 0o755)
		b, _ := json.MarshalIndent(ev, "", " ")
		if err := os.WriteFile(filepath.Join(root, "evidence", c.ID+".json"), b, 0o644); err != nil {
			fmt.Printf("INFRA: cannot write evidence: %v\n", err)
			os.Exit(2)
		}
	}
	if dump != "" {
		var all []string
		for _, d := range dumps {
			all = append(all, d...)
		}
		_ = os.WriteFile(dump, []byte(strings.Join(all, "\n")+"\n"), 0o644)
	}
	fmt.Printf("%s %s seed=%d: %d scenarios (%d distinct non-trivial), %d ops, %.0f simulated s, %.1f s wall, %d violation(s), %d known finding(s)\n",
		c.ID, tier, seed, tot.evals, len(tot.nontrivial), tot.ops, tot.simTime.Seconds(), wall, violations, len(sigs))
	if violations > 0 {
		os.Exit(1)
	}
}

// mergeEvidence folds the numbers of an earlier run of the same check (another binary, e.g. the race-detector half
// of C13) into ev, so that one evidence file describes the whole check.
func mergeEvidence(path string, ev map[string]any) {
	b, err := os.ReadFile(path)
	if err != nil {
		return
	}
	var old map[string]any
	if json.Unmarshal(b, &old) != nil {
		return
	}
	oc, _ := old["coverage"].(map[string]any)
	nc, _ := ev["coverage"].(map[string]any)
	if oc == nil || nc == nil {
		return
	}
	num := func(m map[string]any, k string) float64 {
		switch v := m[k].(type) {
		case float64:
			return v
		case int:
			return float64(v)
		}
		return 0
	}
	for _, k := range []string{"evaluations", "distinct_nontrivial", "operations_executed", "distinct_op_kind_sequences", "distinct_abstract_states"} {
		nc[k] = int(num(oc, k) + num(nc, k))
	}
	nc["simulated_time_s"] = num(oc, "simulated_time_s") + num(nc, "simulated_time_s")
	wall := num(old, "wall_s") + num(ev, "wall_s")
	ev["wall_s"] = wall
	if wall > 0 {
		nc["scenarios_per_hour"] = num(nc, "evaluations") / wall * 3600
	}
	ev["violations"] = int(num(old, "violations") + num(ev, "violations"))
	if of, ok := oc["faults_and_probes_fired"].(map[string]any); ok {
		nf, _ := nc["faults_and_probes_fired"].(map[string]int)
		merged := map[string]int{}
		for k, v := range nf {
			merged[k] = v
		}
		for k, v := range of {
			if f, ok := v.(float64); ok {
				merged[k] += int(f)
			}
		}
		nc["faults_and_probes_fired"] = merged
	}
	if os, ok := oc["samples"].([]any); ok {
		ns, _ := nc["samples"].([]any)
		nc["samples"] = append(os, ns...)
	}
	if orule, ok := oc["rule"].(string); ok {
		nc["rule"] = orule + " || " + fmt.Sprint(nc["rule"])
	}
	if ocomp, ok := oc["components"].(map[string]any); ok {
		comp := map[string]string{}
		for k, v := range ocomp {
			comp[k] = fmt.Sprint(v)
		}
		if ncomp, ok := nc["components"].(map[string]string); ok {
			for k, v := range ncomp {
				comp[k] = v
			}
		}
		nc["components"] = comp
	}
	if oa, ok := old["assumptions"].([]any); ok {
		var as []string
		for _, a := range oa {
			as = append(as, fmt.Sprint(a))
		}
		if na, ok := ev["assumptions"].([]string); ok {
			as = append(as, na...)
		}
		ev["assumptions"] = as
	}
}
