package sim

import (
	"bytes"
	"context"
	"fmt"

	"github.com/evstack/ev-node/pkg/store"
	"github.com/evstack/ev-node/types"
)

// BlockFacts is what the oracles need to know about one stored block.
type BlockFacts struct {
	Header *types.SignedHeader
	Data   *types.Data
	Hash   []byte
}

// VerifySignedByProposer checks that a header is signed by the world's true proposer key (the key the
// harness holds), that the key it carries is that key and that it names the genesis proposer address.
func (w *World) VerifySignedByProposer(h *types.SignedHeader) string {
	if !bytes.Equal(h.ProposerAddress, w.Genesis.ProposerAddress) {
		return fmt.Sprintf("height %d: proposer address %x is not the genesis proposer %x", h.Height(), h.ProposerAddress, w.Genesis.ProposerAddress)
	}
	if h.Signer.PubKey == nil || !h.Signer.PubKey.Equals(w.ProposerPub) {
		return fmt.Sprintf("height %d: header carries a public key that is not the genesis proposer's", h.Height())
	}
	payload, err := types.DefaultSignaturePayloadProvider(&h.Header)
	if err != nil {
		return fmt.Sprintf("height %d: signature payload: %v", h.Height(), err)
	}
	ok, err := w.ProposerPub.Verify(payload, h.Signature)
	if err != nil || !ok {
		return fmt.Sprintf("height %d: signature does not verify under the genesis proposer's key (err=%v)", h.Height(), err)
	}
	return ""
}

// VerifyChain checks heights [from..to] of a store for intrinsic chain validity:
// consecutive heights, hash links, non-decreasing time, data commitment, app-hash chain under the
// execution double's function, proposer signature, full-node validation functions, stored signature.
// genesisRoot is the root InitChain returned. It returns "" or a description of the first defect.
func (w *World) VerifyChain(st store.Store, from, to uint64, genesisRoot []byte) (string, []BlockFacts) {
	ctx := context.Background()
	var prev *types.SignedHeader
	var prevData *types.Data
	var facts []BlockFacts
	for h := from; h <= to; h++ {
		hdr, data, err := st.GetBlockData(ctx, h)
		if err != nil {
			return fmt.Sprintf("height %d: no retrievable block although chain height is %d: %v", h, to, err), facts
		}
		if hdr.Height() != h {
			return fmt.Sprintf("height %d: stored header has height %d", h, hdr.Height()), facts
		}
		if hdr.ChainID() != w.Genesis.ChainID {
			return fmt.Sprintf("height %d: chain id %q", h, hdr.ChainID()), facts
		}
		if prev != nil {
			if !bytes.Equal(hdr.LastHeaderHash, prev.Hash()) {
				return fmt.Sprintf("height %d: LastHeaderHash %x is not the hash of header %d (%x)", h, []byte(hdr.LastHeaderHash), h-1, []byte(prev.Hash())), facts
			}
			if hdr.Time().Before(prev.Time()) {
				return fmt.Sprintf("height %d: time %v is earlier than predecessor's %v", h, hdr.Time().UnixNano(), prev.Time().UnixNano()), facts
			}
			want := Root(prev.AppHash, h-1, txBytes(prevData))
			if !bytes.Equal(hdr.AppHash, want) {
				return fmt.Sprintf("height %d: AppHash %x is not the root of executing block %d on its AppHash (%x)", h, hdr.AppHash, h-1, want), facts
			}
		} else if h == w.Genesis.InitialHeight {
			if genesisRoot != nil && !bytes.Equal(hdr.AppHash, genesisRoot) {
				return fmt.Sprintf("height %d (first): AppHash %x is not the genesis root %x", h, hdr.AppHash, genesisRoot), facts
			}
		}
		commit := (&types.Data{Txs: data.Txs}).DACommitment()
		if !bytes.Equal(hdr.DataHash, commit) {
			return fmt.Sprintf("height %d: DataHash %x does not commit to the stored transactions (%x)", h, []byte(hdr.DataHash), []byte(commit)), facts
		}
		if s := w.VerifySignedByProposer(hdr); s != "" {
			return s, facts
		}
		if err := hdr.ValidateBasic(); err != nil {
			return fmt.Sprintf("height %d: ValidateBasic: %v", h, err), facts
		}
		if err := types.Validate(hdr, data); err != nil {
			return fmt.Sprintf("height %d: full-node validation of header against data: %v", h, err), facts
		}
		sig, err := st.GetSignature(ctx, h)
		if err != nil || !bytes.Equal(*sig, hdr.Signature) {
			return fmt.Sprintf("height %d: stored signature differs from the header's signature", h), facts
		}
		byHash, _, err := st.GetBlockByHash(ctx, hdr.Hash())
		if err != nil || byHash.Height() != h {
			return fmt.Sprintf("height %d: not retrievable by its header hash: %v", h, err), facts
		}
		facts = append(facts, BlockFacts{Header: hdr, Data: data, Hash: hdr.Hash()})
		prev, prevData = hdr, data
	}
	return "", facts
}

func txBytes(d *types.Data) [][]byte {
	out := make([][]byte, len(d.Txs))
	for i, tx := range d.Txs {
		out[i] = tx
	}
	return out
}

// TxsEqual compares a block's transactions with a list of byte slices.
func TxsEqual(d *types.Data, txs [][]byte) bool {
	if len(d.Txs) != len(txs) {
		return false
	}
	for i := range txs {
		if !bytes.Equal(d.Txs[i], txs[i]) {
			return false
		}
	}
	return true
}

// CheckQuiescent checks that recorded height, recorded state and stored blocks agree.
func (w *World) CheckQuiescent(st store.Store) string {
	ctx := context.Background()
	h, err := st.Height(ctx)
	if err != nil {
		return fmt.Sprintf("Height(): %v", err)
	}
	s, err := st.GetState(ctx)
	if err != nil {
		if h == 0 || h < w.Genesis.InitialHeight {
			return ""
		}
		return fmt.Sprintf("chain height %d but no state: %v", h, err)
	}
	if s.LastBlockHeight != h {
		return fmt.Sprintf("recorded chain height %d but recorded state is for height %d", h, s.LastBlockHeight)
	}
	if h >= w.Genesis.InitialHeight {
		hdr, data, err := st.GetBlockData(ctx, h)
		if err != nil {
			return fmt.Sprintf("chain height %d has no block: %v", h, err)
		}
		if want := Root(hdr.AppHash, h, txBytes(data)); !bytes.Equal(s.AppHash, want) {
			return fmt.Sprintf("recorded state root %x is not the result of executing block %d (%x)", s.AppHash, h, want)
		}
	}
	return ""
}
