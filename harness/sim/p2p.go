package sim

import (
	"context"
	"sync"

	goheader "github.com/celestiaorg/go-header"
)

// P2PStore is a harness-owned stand-in for the go-header store the block manager polls:
// the harness decides Height() and the contents.
type P2PStore[H goheader.Header[H]] struct {
	mu     sync.Mutex
	items  map[uint64]H
	height uint64
	// FailAt makes GetByHeight fail (once) for the given height.
	FailAt map[uint64]int
	Gets   int
}

func NewP2PStore[H goheader.Header[H]]() *P2PStore[H] {
	return &P2PStore[H]{items: map[uint64]H{}, FailAt: map[uint64]int{}}
}

// Put stores an item at a height without changing Height().
func (s *P2PStore[H]) Put(h uint64, item H) {
	s.mu.Lock()
	defer s.mu.Unlock()
	s.items[h] = item
}

// SetHeight sets the contiguous head height reported by the store.
func (s *P2PStore[H]) SetHeight(h uint64) {
	s.mu.Lock()
	defer s.mu.Unlock()
	s.height = h
}

func (s *P2PStore[H]) Height() uint64 {
	s.mu.Lock()
	defer s.mu.Unlock()
	return s.height
}

func (s *P2PStore[H]) GetByHeight(ctx context.Context, h uint64) (H, error) {
	s.mu.Lock()
	defer s.mu.Unlock()
	s.Gets++
	var zero H
	if n := s.FailAt[h]; n > 0 {
		s.FailAt[h] = n - 1
		return zero, goheader.ErrNotFound
	}
	it, ok := s.items[h]
	if !ok {
		return zero, goheader.ErrNotFound
	}
	return it, nil
}

func (s *P2PStore[H]) Head(ctx context.Context, _ ...goheader.HeadOption[H]) (H, error) {
	s.mu.Lock()
	defer s.mu.Unlock()
	var zero H
	it, ok := s.items[s.height]
	if !ok {
		return zero, goheader.ErrNoHead
	}
	return it, nil
}

func (s *P2PStore[H]) Get(ctx context.Context, hash goheader.Hash) (H, error) {
	var zero H
	return zero, goheader.ErrNotFound
}

func (s *P2PStore[H]) GetRangeByHeight(ctx context.Context, from H, to uint64) ([]H, error) {
	return nil, goheader.ErrNotFound
}

func (s *P2PStore[H]) Init(ctx context.Context, h H) error { return nil }

func (s *P2PStore[H]) Has(ctx context.Context, hash goheader.Hash) (bool, error) { return false, nil }

func (s *P2PStore[H]) HasAt(ctx context.Context, h uint64) bool {
	s.mu.Lock()
	defer s.mu.Unlock()
	_, ok := s.items[h]
	return ok
}

func (s *P2PStore[H]) Append(ctx context.Context, hs ...H) error { return nil }

func (s *P2PStore[H]) GetRange(ctx context.Context, from, to uint64) ([]H, error) {
	return nil, goheader.ErrNotFound
}

// Capture records what a node hands to its broadcaster.
type Capture[T any] struct {
	mu    sync.Mutex
	Items []T
	fence *Fence
	epoch int
	// Fail makes the next n broadcasts fail.
	Fail int
}

func NewCapture[T any](f *Fence) *Capture[T] {
	return &Capture[T]{fence: f, epoch: f.Epoch()}
}

func (c *Capture[T]) WriteToStoreAndBroadcast(ctx context.Context, payload T) error {
	if !c.fence.Alive(c.epoch) {
		return ErrCrashed
	}
	c.mu.Lock()
	defer c.mu.Unlock()
	if c.Fail > 0 {
		c.Fail--
		return context.DeadlineExceeded
	}
	c.Items = append(c.Items, payload)
	return nil
}

func (c *Capture[T]) Len() int {
	c.mu.Lock()
	defer c.mu.Unlock()
	return len(c.Items)
}

func (c *Capture[T]) All() []T {
	c.mu.Lock()
	defer c.mu.Unlock()
	return append([]T(nil), c.Items...)
}
