package sim

import (
	"bytes"
	"fmt"
	"math/rand/v2"
	"os"
	"runtime"
	"strconv"
	"strings"
	"sync"
	"time"
)

// ParkSched decides, from a seeded PRNG, which of a set of real goroutines proceeds: every task parks
// at its yield points (the simulated disk's operations and wherever the task calls Yield itself) and
// exactly one parked task is released at a time. A released task runs until it parks again, finishes,
// or blocks on a lock or channel held by another task (recognised from the runtime's goroutine
// states); only then is the next choice made. The code between two yield points of different tasks
// can therefore only overlap after a lock hand-over, where it touches shared state under that lock.
// The recorded Trace (task id per decision) replays the interleaving.
type ParkSched struct {
	rng   *rand.Rand
	mu    sync.Mutex
	tasks []*ptask
	byGid map[uint64]*ptask
	Trace []int
	// Script, when set, decides the first len(Script) choices (entry i picks candidate Script[i] modulo
	// the number of parked tasks, candidates ordered by task id); later choices come from the PRNG.
	Script []int
	Stuck  bool // every unfinished task was blocked and none parked (deadlock among tasks)
	// Free: the tasks run as ordinary goroutines, all released at once, and Yield only yields the processor. The
	// scheduler then adds no synchronisation between the tasks - the mode to use under the race detector, which
	// otherwise sees every hand-over from one task to the next as a happens-before edge.
	Free   bool
	freeWG sync.WaitGroup
	freeGo chan struct{}
	// StuckStacks: when Stuck, the goroutine dump blocks (state line and frames) of the unfinished tasks
	StuckStacks []string
	Blocks      int // decisions taken while some task was blocked on a lock/channel
}

type ptask struct {
	id     int
	gid    uint64
	wake   chan struct{}
	parked bool
	done   bool
	// wasBlocked: confirmed waiting for a lock/channel at the previous decision; one further snapshot
	// showing it waiting is then enough (cleared when the task parks)
	wasBlocked bool
}

func NewParkSched(seed uint64) *ParkSched {
	return &ParkSched{rng: rand.New(rand.NewPCG(seed, 0x9a4c)), byGid: map[uint64]*ptask{}}
}

func curGid() uint64 {
	var buf [64]byte
	n := runtime.Stack(buf[:], false)
	f := bytes.Fields(buf[:n])
	g, _ := strconv.ParseUint(string(f[1]), 10, 64)
	return g
}

// Go registers a task; it starts parked and runs only when first chosen.
func (s *ParkSched) Go(f func()) {
	if s.Free {
		if s.freeGo == nil {
			s.freeGo = make(chan struct{})
		}
		s.freeWG.Add(1)
		start := s.freeGo
		go func() {
			defer s.freeWG.Done()
			<-start
			f()
		}()
		return
	}
	t := &ptask{id: len(s.tasks), wake: make(chan struct{}), parked: true}
	s.tasks = append(s.tasks, t)
	ready := make(chan struct{})
	go func() {
		s.mu.Lock()
		t.gid = curGid()
		s.byGid[t.gid] = t
		s.mu.Unlock()
		close(ready)
		<-t.wake
		defer func() {
			s.mu.Lock()
			t.done = true
			s.mu.Unlock()
		}()
		f()
	}()
	<-ready
}

// Yield parks the calling task until the scheduler releases it. Calls from goroutines that are not
// tasks return at once.
func (s *ParkSched) Yield() {
	if s.Free {
		runtime.Gosched()
		return
	}
	g := curGid()
	s.mu.Lock()
	t := s.byGid[g]
	if t == nil {
		s.mu.Unlock()
		return
	}
	t.parked = true
	t.wasBlocked = false
	s.mu.Unlock()
	if os.Getenv("VERIF_DEBUG") != "" {
		pc := make([]uintptr, 12)
		n := runtime.Callers(2, pc)
		fr := runtime.CallersFrames(pc[:n])
		var names []string
		for {
			f, more := fr.Next()
			names = append(names, f.Function[strings.LastIndex(f.Function, "/")+1:])
			if !more {
				break
			}
		}
		fmt.Fprintf(os.Stderr, "PARK task %d at %v\n", t.id, names)
	}
	<-t.wake
}

// goroutine-state snapshots are process-wide (runtime.Stack stops the world), so concurrent schedulers
// share them: snapshotAfter returns a snapshot of a later generation than gen, taking a new one - not
// sooner than 30 microseconds after the previous one - only if nobody else has meanwhile.
var snap struct {
	mu      sync.Mutex
	gen     uint64
	at      time.Time
	blocked map[uint64]bool
}

func snapshotAfter(gen uint64) (map[uint64]bool, uint64) {
	snap.mu.Lock()
	defer snap.mu.Unlock()
	if snap.gen > gen {
		return snap.blocked, snap.gen
	}
	if d := 30*time.Microsecond - time.Since(snap.at); d > 0 {
		time.Sleep(d)
	}
	snap.blocked = blockedGids()
	snap.gen++
	snap.at = time.Now()
	return snap.blocked, snap.gen
}

// goroutineBlocks returns the dump blocks of the given goroutines.
func goroutineBlocks(want map[uint64]bool) []string {
	buf := make([]byte, 1<<18)
	for {
		n := runtime.Stack(buf, true)
		if n < len(buf) {
			buf = buf[:n]
			break
		}
		buf = make([]byte, 2*len(buf))
	}
	var out []string
	for _, blk := range strings.Split(string(buf), "\n\n") {
		if !strings.HasPrefix(blk, "goroutine ") {
			continue
		}
		f := strings.Fields(blk)
		if len(f) < 2 {
			continue
		}
		if g, err := strconv.ParseUint(f[1], 10, 64); err == nil && want[g] {
			out = append(out, blk)
		}
	}
	return out
}

// blockedGids returns the goroutines that the runtime reports as waiting for a lock or a channel.
func blockedGids() map[uint64]bool {
	buf := make([]byte, 1<<17)
	for {
		n := runtime.Stack(buf, true)
		if n < len(buf) {
			buf = buf[:n]
			break
		}
		buf = make([]byte, 2*len(buf))
	}
	out := map[uint64]bool{}
	for len(buf) > 0 {
		// one block per goroutine: "goroutine N [state...]:" then frames, then an empty line
		end := bytes.Index(buf, []byte("\n\n"))
		blk := buf
		if end >= 0 {
			blk, buf = buf[:end], buf[end+2:]
		} else {
			buf = nil
		}
		if !bytes.HasPrefix(blk, []byte("goroutine ")) {
			continue
		}
		line := blk
		if i := bytes.IndexByte(blk, '\n'); i >= 0 {
			line = blk[:i]
		}
		sp := bytes.IndexByte(line[10:], ' ')
		if sp < 0 {
			continue
		}
		g, err := strconv.ParseUint(string(line[10:10+sp]), 10, 64)
		if err != nil {
			continue
		}
		st := string(bytes.TrimLeft(line[10+sp+1:], "["))
		// only waits that another task must end count as blocked (GC assist, preemption, the
		// stop-the-world semacquire of a snapshot etc. do not)
		for _, w := range []string{"sync.Mutex.Lock", "sync.RWMutex.Lock", "sync.RWMutex.RLock", "chan receive", "chan send", "select", "sync.Cond.Wait", "sync.WaitGroup.Wait"} {
			if strings.HasPrefix(st, w) {
				out[g] = true
			}
		}
	}
	return out
}

// Run schedules until every task has finished. It returns an error when the tasks deadlock.
func (s *ParkSched) Run() error {
	if s.Free {
		if s.freeGo != nil {
			close(s.freeGo)
		}
		s.freeWG.Wait()
		return nil
	}
	for {
		// settle: every unfinished task is parked or blocked
		var cands []*ptask
		blocked := 0
		for spin := 0; ; spin++ {
			cands = cands[:0]
			running := []*ptask{}
			s.mu.Lock()
			alive := 0
			for _, t := range s.tasks {
				switch {
				case t.done:
				case t.parked:
					alive++
					cands = append(cands, t)
				default:
					alive++
					running = append(running, t)
				}
			}
			s.mu.Unlock()
			if alive == 0 {
				return nil
			}
			if len(running) == 0 {
				blocked = 0
				break
			}
			if spin > 50 {
				// blocked means: seen waiting on a lock/channel in three successive snapshots (a brief
				// contention on a process-wide lock, e.g. with another worker, must not count)
				all := true
				gen := uint64(0)
				snap.mu.Lock()
				gen = snap.gen // only snapshots taken from now on count
				snap.mu.Unlock()
				need := 1
				s.mu.Lock()
				for _, t := range running {
					if !t.wasBlocked {
						need = 3
					}
				}
				s.mu.Unlock()
				for rep := 0; rep < need && all; rep++ {
					var bl map[uint64]bool
					bl, gen = snapshotAfter(gen)
					for _, t := range running {
						if !bl[t.gid] {
							all = false
						}
					}
				}
				if all {
					// a parked flag may have been set since the snapshot: re-read before deciding
					s.mu.Lock()
					still := 0
					for _, t := range running {
						if !t.parked && !t.done {
							still++
						}
					}
					s.mu.Unlock()
					if still == len(running) {
						blocked = still
						s.mu.Lock()
						for _, t := range running {
							if !t.parked && !t.done {
								t.wasBlocked = true
							}
						}
						s.mu.Unlock()
						break
					}
					continue
				}
				time.Sleep(20 * time.Microsecond)
			} else {
				runtime.Gosched()
			}
		}
		if len(cands) == 0 {
			s.Stuck = true
			s.mu.Lock()
			want := map[uint64]bool{}
			for _, t := range s.tasks {
				if !t.done {
					want[t.gid] = true
				}
			}
			s.mu.Unlock()
			s.StuckStacks = goroutineBlocks(want)
			if os.Getenv("VERIF_DEBUG") != "" {
				buf := make([]byte, 1<<18)
				fmt.Fprintf(os.Stderr, "STUCK:\n%s\n", buf[:runtime.Stack(buf, true)])
			}
			return fmt.Errorf("parksched: %d task(s) blocked and none parked", blocked)
		}
		if blocked > 0 {
			s.Blocks++
		}
		var t *ptask
		if k := len(s.Trace); k < len(s.Script) {
			t = cands[s.Script[k]%len(cands)]
		} else {
			t = cands[s.rng.IntN(len(cands))]
		}
		s.Trace = append(s.Trace, t.id)
		s.mu.Lock()
		t.parked = false
		s.mu.Unlock()
		t.wake <- struct{}{}
	}
}
