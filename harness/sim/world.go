package sim

import (
	"context"
	"crypto/sha256"
	"errors"
	"fmt"
	"os"
	"runtime"
	"runtime/debug"
	"strings"
	"sync"
	"sync/atomic"
	"testing"
	"testing/synctest"
	"time"

	ds "github.com/ipfs/go-datastore"
	ktds "github.com/ipfs/go-datastore/keytransform"
	logging "github.com/ipfs/go-log/v2"
	"github.com/libp2p/go-libp2p/core/crypto"

	"github.com/evstack/ev-node/block"
	coreda "github.com/evstack/ev-node/core/da"
	coresequencer "github.com/evstack/ev-node/core/sequencer"
	"github.com/evstack/ev-node/pkg/config"
	"github.com/evstack/ev-node/pkg/genesis"
	"github.com/evstack/ev-node/pkg/signer"
	"github.com/evstack/ev-node/pkg/store"
	"github.com/evstack/ev-node/sequencers/single"
	"github.com/evstack/ev-node/types"
)

var logOnce sync.Once

func QuietLogs() {
	logOnce.Do(func() {
		lvl := os.Getenv("VERIF_LOG")
		if lvl == "" {
			lvl = "fatal"
		}
		l, err := logging.LevelFromString(lvl)
		if err != nil {
			l = logging.LevelFatal
		}
		_ = logging.Logger("verif")
		logging.SetAllLoggers(l)
	})
}

// BubbleAborted is returned by Bubble when the testing framework ended the bubble's goroutine itself
// (it does so, via FailNow, when the race detector reported a race inside the bubble).
const BubbleAborted = "sim: bubble aborted by the testing framework (race detector report?)"

// Bubble runs f inside a synctest bubble (fake clock starting at 2000-01-01) and returns f's panic, if any.
func Bubble(t *testing.T, f func()) (panicVal any) {
	QuietLogs()
	done := make(chan any, 1)
	go func() {
		finished := false
		var pv any
		defer func() {
			if r := recover(); r != nil {
				done <- r
				return
			}
			if !finished {
				done <- BubbleAborted // runtime.Goexit: the framework called FailNow on this goroutine
				return
			}
			done <- pv
		}()
		synctest.Test(t, func(t *testing.T) {
			// the bubble body runs in its own goroutine: a panic of the system under test must be caught here
			defer func() {
				if r := recover(); r != nil {
					pv = fmt.Sprintf("%v\n%s", r, trimStackN(string(debug.Stack()), 30))
				}
			}()
			// Let one heap timer of the bubble fire before anything else runs. Under -race the first timer of
			// a bubble to fire initialises the bubble's race context; when that first firing happens on the
			// "expired timer channel seen by select" path (runtime.(*timer).maybeRunChan on the system stack)
			// go1.26.8 crashes inside the race runtime. A heap timer fired from the scheduler does not.
			time.Sleep(time.Nanosecond)
			f()
		})
		finished = true
	}()
	return <-done
}

// BubbleStalled is returned by BubbleWall when the bubble did not finish within the wall-clock budget.
const BubbleStalled = "sim: bubble stalled (wall-clock budget exceeded)"

// BubbleWall is Bubble with a wall-clock budget. A bubble whose fake clock cannot advance (some goroutine
// waits for a sync.Mutex - not a durable block - whose holder waits for simulated time) never finishes;
// after the budget its goroutines are abandoned and a dump of all goroutines is returned for the caller
// to tell a simulator limitation from a deadlock of the code under test.
func BubbleWall(t *testing.T, f func(), wall time.Duration) (panicVal any, dump string) {
	var ticks atomic.Int64 // advanced once per second of simulated time while the body runs
	done := make(chan any, 1)
	go func() {
		done <- Bubble(t, func() {
			stop := make(chan struct{})
			defer close(stop)
			go func() {
				for {
					select {
					case <-stop:
						return
					case <-time.After(time.Second):
						ticks.Add(1)
					}
				}
			}()
			f()
		})
	}()
	deadline := time.After(wall)
	hard := time.After(10 * wall)
	for {
		select {
		case v := <-done:
			return v, ""
		case <-hard:
		case <-deadline:
			// over budget: is the simulated clock still advancing (a slow machine), or has the bubble stopped?
			t0 := ticks.Load()
			select {
			case v := <-done:
				return v, ""
			case <-time.After(5 * time.Second):
			}
			if ticks.Load() > t0 {
				deadline = time.After(wall / 2)
				continue
			}
		}
		buf := make([]byte, 1<<22)
		n := runtime.Stack(buf, true)
		return BubbleStalled, string(buf[:n])
	}
}

func trimStackN(st string, n int) string {
	lines := strings.Split(st, "\n")
	if len(lines) > n {
		lines = lines[:n]
	}
	return strings.Join(lines, "\n")
}

// NodeCfg configures one simulated node.
type NodeCfg struct {
	Name          string
	Aggregator    bool
	BlockTime     time.Duration
	DABlockTime   time.Duration
	LazyMode      bool
	BlockTimeZero bool // configure block_time = 0s (the node's default of 1 s applies); BlockTime must then be 1 s
	LazyInterval  time.Duration
	MaxPending    uint64
	DAStartHeight uint64
	QueueSize     int  // single sequencer queue bound (0 = repo default 1000)
	ScriptedSeq   bool // use the scripted sequencing double instead of the real single sequencer
	MempoolTTL    uint64
	// GasPrice / GasMultiplier, when > 0, are put into the node's DA configuration (the defaults are -1 and 0:
	// automatic price, no raise on retry). The manager itself is always built with price 1.0 and multiplier 1.5.
	GasPrice, GasMultiplier float64
	DA                      *SimDA // nil: the world's DA layer
	Root                    string // non-empty: use this directory as the node's root (cache files) instead of a scratch dir
}

// World is one simulated deployment: one DA layer, one genesis, several nodes.
type World struct {
	T           *testing.T
	DA          *SimDA
	Genesis     genesis.Genesis
	Signer      signer.Signer
	ProposerKey crypto.PrivKey
	ProposerPub crypto.PubKey
	Nodes       map[string]*Node
	Start       time.Time
	tmpDirs     []string
	// CustomPayload: see managerOptions. Set before the first node starts.
	CustomPayload bool
}

// NewWorld must be called inside a Bubble.
func NewWorld(t *testing.T, chainID string, initialHeight uint64) *World {
	sg, key := SignerFromSeed("proposer")
	addr, _ := sg.GetAddress()
	w := &World{T: t, DA: NewSimDA(), Signer: sg, ProposerKey: key, ProposerPub: key.GetPublic(), Nodes: map[string]*Node{}, Start: time.Now()}
	w.Genesis = genesis.NewGenesis(chainID, initialHeight, time.Now(), addr)
	return w
}

// Close cancels every node and removes scratch directories. Must be called before the bubble ends.
func (w *World) Close() {
	for _, n := range w.Nodes {
		n.stopLoops()
	}
	for _, d := range w.tmpDirs {
		os.RemoveAll(d)
	}
}

// Node is one simulated node with durable state (disk, execution layer, cache files) and, while
// alive, one incarnation of the real block manager and friends.
type Node struct {
	W     *World
	Cfg   NodeCfg
	Fence *Fence
	Disk  *Disk
	Exec  *SimExec
	Root  string

	// incarnation
	Alive       bool
	Incarnation int
	epoch       int
	M           *block.Manager
	Reaper      *block.Reaper
	Seq         coresequencer.Sequencer
	Scripted    *ScriptedSeq
	Store       store.Store
	MainKV      ds.Batching
	HStore      *P2PStore[*types.SignedHeader]
	DStore      *P2PStore[*types.Data]
	HB          *Capture[*types.SignedHeader]
	DB          *Capture[*types.Data]
	ctx         context.Context
	cancel      context.CancelFunc
	loopCancel  context.CancelFunc
	loopDone    []chan struct{}
	Halted      error // set when a loop reported a fatal error through errCh (a real node shuts down)
	HeaderFIFO  []block.NewHeaderEvent
	DataFIFO    []block.NewDataEvent
	LoopPanics  []string
	StartErrors []string
	// NoP2PLoops: StartNode does not start the P2P store polling loops (the caller runs them itself).
	NoP2PLoops bool
	// SeqLog records what the real sequencer released and refused, across incarnations (harness side).
	SeqLog SeqLog
}

// SeqLog is the harness-side record of the sequencing layer's answers.
type SeqLog struct {
	Released  [][][]byte // non-empty batches handed to the node, in release order
	Submitted int
	Refused   int
}

// recSeq wraps the real sequencer and records its answers; it forwards metrics recording.
type recSeq struct {
	inner coresequencer.Sequencer
	log   *SeqLog
	fence *Fence
	epoch int
}

func (r *recSeq) SubmitBatchTxs(ctx context.Context, req coresequencer.SubmitBatchTxsRequest) (*coresequencer.SubmitBatchTxsResponse, error) {
	res, err := r.inner.SubmitBatchTxs(ctx, req)
	if r.fence.Alive(r.epoch) {
		if err != nil {
			r.log.Refused++
		} else {
			r.log.Submitted++
		}
	}
	return res, err
}

func (r *recSeq) GetNextBatch(ctx context.Context, req coresequencer.GetNextBatchRequest) (*coresequencer.GetNextBatchResponse, error) {
	res, err := r.inner.GetNextBatch(ctx, req)
	if err == nil && res != nil && res.Batch != nil && len(res.Batch.Transactions) > 0 && r.fence.Alive(r.epoch) {
		cp := make([][]byte, len(res.Batch.Transactions))
		for i, tx := range res.Batch.Transactions {
			cp[i] = append([]byte(nil), tx...)
		}
		r.log.Released = append(r.log.Released, cp)
	}
	return res, err
}

func (r *recSeq) VerifyBatch(ctx context.Context, req coresequencer.VerifyBatchRequest) (*coresequencer.VerifyBatchResponse, error) {
	return r.inner.VerifyBatch(ctx, req)
}

func (r *recSeq) RecordMetrics(gasPrice float64, blobSize uint64, statusCode coreda.StatusCode, numPendingBlocks uint64, includedBlockHeight uint64) {
	if mr, ok := r.inner.(block.MetricsRecorder); ok {
		mr.RecordMetrics(gasPrice, blobSize, statusCode, numPendingBlocks, includedBlockHeight)
	}
}

// AddNode creates a node (not started).
func (w *World) AddNode(cfg NodeCfg) *Node {
	if cfg.BlockTime == 0 {
		cfg.BlockTime = time.Second
	}
	if cfg.DABlockTime == 0 {
		cfg.DABlockTime = 6 * time.Second
	}
	dir := cfg.Root
	if dir == "" {
		var err error
		dir, err = os.MkdirTemp("", "verif-node-")
		if err != nil {
			panic(fmt.Sprintf("INFRA: %v", err))
		}
		w.tmpDirs = append(w.tmpDirs, dir)
	}
	f := NewFence()
	n := &Node{W: w, Cfg: cfg, Fence: f, Disk: NewDisk(f), Exec: NewSimExec(), Root: dir}
	n.HStore = NewP2PStore[*types.SignedHeader]()
	n.DStore = NewP2PStore[*types.Data]()
	w.Nodes[cfg.Name] = n
	return n
}

// managerOptions: the defaults, or - World.CustomPayload - a chain whose sequencer signs something else than the
// default payload (the documented ManagerOptions.SignaturePayloadProvider that ABCI-style adapters set); every node
// of the world is then configured alike.
func (w *World) managerOptions() block.ManagerOptions {
	o := block.DefaultManagerOptions()
	if w.CustomPayload {
		o.SignaturePayloadProvider = func(h *types.Header) ([]byte, error) {
			b, err := types.DefaultSignaturePayloadProvider(h)
			if err != nil {
				return nil, err
			}
			sum := sha256.Sum256(append([]byte("custom-payload/"), b...))
			return sum[:], nil
		}
	}
	return o
}

// ValidHeader: ValidateBasic under the world's signature payload provider.
func (w *World) ValidHeader(sh *types.SignedHeader) bool {
	sh.SetCustomVerifier(w.managerOptions().SignaturePayloadProvider)
	return sh.ValidateBasic() == nil
}

func (n *Node) config() config.Config {
	c := config.DefaultConfig
	c.RootDir = n.Root
	c.ChainID = n.W.Genesis.ChainID
	c.Node.Aggregator = n.Cfg.Aggregator
	c.Node.BlockTime = config.DurationWrapper{Duration: n.Cfg.BlockTime}
	if n.Cfg.BlockTimeZero {
		c.Node.BlockTime = config.DurationWrapper{} // "0s" in the configuration: the manager applies its 1 s default
	}
	c.Node.LazyMode = n.Cfg.LazyMode
	if n.Cfg.LazyInterval > 0 {
		c.Node.LazyBlockInterval = config.DurationWrapper{Duration: n.Cfg.LazyInterval}
	}
	c.Node.MaxPendingHeadersAndData = n.Cfg.MaxPending
	c.DA.BlockTime = config.DurationWrapper{Duration: n.Cfg.DABlockTime}
	c.DA.StartHeight = n.Cfg.DAStartHeight
	c.DA.MempoolTTL = n.Cfg.MempoolTTL
	if n.Cfg.GasPrice > 0 {
		c.DA.GasPrice = n.Cfg.GasPrice
	}
	if n.Cfg.GasMultiplier > 0 {
		c.DA.GasMultiplier = n.Cfg.GasMultiplier
	}
	c.Instrumentation = nil
	return c
}

// DAOf returns the DA layer this node talks to.
func (n *Node) DAOf() *SimDA {
	if n.Cfg.DA != nil {
		return n.Cfg.DA
	}
	return n.W.DA
}

// StartNode boots a new incarnation on whatever is durable: real NewManager, real sequencer reload, real reaper.
func (n *Node) StartNode() error {
	if n.Alive {
		return errors.New("already alive")
	}
	QuietLogs()
	n.Incarnation++
	n.epoch = n.Fence.Epoch()
	n.Halted = nil
	n.HeaderFIFO, n.DataFIFO = nil, nil
	ctx, cancel := context.WithCancel(context.Background())
	n.ctx, n.cancel = ctx, cancel
	n.Fence.OnCrash(cancel)
	handle := n.Disk.Open()
	n.MainKV = ktds.Wrap(handle, ktds.PrefixTransform{Prefix: ds.NewKey("0")})
	n.Store = store.New(n.MainKV)
	exec := n.Exec.For(n.Fence)
	da := n.DAOf().For(n.Cfg.Name, n.Fence)
	logger := logging.Logger("verif")
	var sg signer.Signer
	if n.Cfg.Aggregator {
		sg = n.W.Signer
	}
	if n.Cfg.ScriptedSeq {
		if n.Scripted == nil {
			n.Scripted = &ScriptedSeq{}
		}
		n.Seq = n.Scripted
	} else {
		qs := n.Cfg.QueueSize
		if qs == 0 {
			qs = 1000
		}
		m, _ := single.NopMetrics()
		seq, err := single.NewSequencerWithQueueSize(ctx, logger, handle, da, []byte(n.W.Genesis.ChainID), n.Cfg.BlockTime, m, n.Cfg.Aggregator, qs)
		if err != nil {
			cancel()
			n.StartErrors = append(n.StartErrors, err.Error())
			return fmt.Errorf("sequencer start: %w", err)
		}
		n.Seq = &recSeq{inner: seq, log: &n.SeqLog, fence: n.Fence, epoch: n.Fence.Epoch()}
	}
	n.HB = NewCapture[*types.SignedHeader](n.Fence)
	n.DB = NewCapture[*types.Data](n.Fence)
	m, err := block.NewManager(ctx, sg, n.config(), n.W.Genesis, n.Store, exec, n.Seq, da, logger,
		n.HStore, n.DStore, n.HB, n.DB, block.NopMetrics(), 1.0, 1.5, n.W.managerOptions())
	if err != nil {
		cancel()
		n.StartErrors = append(n.StartErrors, err.Error())
		return fmt.Errorf("NewManager: %w", err)
	}
	n.M = m
	n.Reaper = block.NewReaper(ctx, exec, n.Seq, n.W.Genesis.ChainID, n.Cfg.BlockTime, logger, n.MainKV)
	n.Reaper.SetManager(m)
	n.Alive = true
	if !n.Cfg.Aggregator && !n.NoP2PLoops {
		n.startP2PLoops()
	}
	return nil
}

// startP2PLoops runs the two P2P-store polling loops for the life of the incarnation (they carry state).
func (n *Node) startP2PLoops() {
	lctx, lcancel := context.WithCancel(n.ctx)
	n.loopCancel = lcancel
	for _, f := range []func(context.Context){n.M.HeaderStoreRetrieveLoop, n.M.DataStoreRetrieveLoop} {
		done := make(chan struct{})
		n.loopDone = append(n.loopDone, done)
		go func() {
			defer close(done)
			defer n.recoverLoop("p2p-store-loop")
			f(lctx)
		}()
	}
	synctest.Wait()
}

func (n *Node) recoverLoop(name string) {
	if r := recover(); r != nil {
		n.LoopPanics = append(n.LoopPanics, fmt.Sprintf("%s: %v", name, r))
	}
}

func (n *Node) stopLoops() {
	if n.cancel != nil {
		n.cancel()
	}
	if n.loopCancel != nil {
		n.loopCancel()
	}
	for _, d := range n.loopDone {
		<-d
	}
	n.loopDone = nil
	n.loopCancel = nil
}

// StopClean is what node.FullNode.Run does on shutdown for the parts simulated here: stop the workers,
// close the store, save the caches.
func (n *Node) StopClean() error {
	if !n.Alive {
		return nil
	}
	n.stopLoops()
	err := n.M.SaveCache()
	n.Alive = false
	n.Fence.Kill()
	return err
}

// Crash kills the incarnation right now (between two activities).
func (n *Node) Crash() {
	if !n.Alive {
		return
	}
	n.Fence.Kill()
	n.stopLoops()
	n.Alive = false
}

// AfterActivity converts a crash that fired inside an activity into a dead node.
func (n *Node) AfterActivity() bool {
	fired := n.Disk.Disarm()
	if !n.Fence.Alive(n.epoch) {
		fired = true
	}
	if fired {
		n.stopLoops()
		n.Alive = false
	}
	return fired
}

// WithCrash runs activity f with a crash armed to cut the (k+1)-th durable write (k < 0: no crash).
// It reports whether the crash fired.
func (n *Node) WithCrash(k int, f func()) bool {
	if k < 0 {
		k = -1
	}
	n.Disk.Arm(k) // k = -1 disarms and clears the labels of an earlier crash
	f()
	return n.AfterActivity()
}

// runLoop runs one of the manager's loops as a goroutine until it is durably blocked, then cancels it.
// settle lets retry timers of the loop fire: it is called repeatedly until it returns false.
func (n *Node) runLoop(name string, f func(ctx context.Context, errCh chan<- error), settle func() bool) error {
	lctx, lcancel := context.WithCancel(n.ctx)
	errCh := make(chan error, 1)
	done := make(chan struct{})
	go func() {
		defer close(done)
		defer n.recoverLoop(name)
		f(lctx, errCh)
	}()
	synctest.Wait()
	for settle != nil && settle() {
		synctest.Wait()
	}
	lcancel()
	<-done
	select {
	case err := <-errCh:
		n.Halted = err
		return err
	default:
	}
	return nil
}

// RunLoopFor runs one of the manager's loops as a goroutine for d of simulated time, then cancels it.
// It returns whether the node died meanwhile (a crash fired at a seam).
func (n *Node) RunLoopFor(name string, f func(ctx context.Context), d time.Duration) {
	lctx, lcancel := context.WithCancel(n.ctx)
	done := make(chan struct{})
	go func() {
		defer close(done)
		defer n.recoverLoop(name)
		f(lctx)
	}()
	time.Sleep(d)
	synctest.Wait()
	lcancel()
	<-done
}

// ---- aggregator activities ----

// Produce runs what the aggregation loop runs for one block.
func (n *Node) Produce() error {
	return n.M.VerifPublishBlock(n.ctx)
}

// Reap runs one reaper iteration.
func (n *Node) Reap() { n.Reaper.SubmitTxs() }

func (n *Node) SubmitHeaders() (bool, error) { return n.M.VerifSubmitHeadersStep(n.ctx) }
func (n *Node) SubmitData() (bool, error)    { return n.M.VerifSubmitDataStep(n.ctx) }

// Include lets the real DAIncluderLoop consume a pending signal (if any) and run to quiescence.
func (n *Node) Include() error {
	return n.runLoop("da-includer", n.M.DAIncluderLoop, nil)
}

// ---- follower activities ----

// Retrieve signals the real RetrieveLoop like the DA ticker does and lets it run until it is idle;
// emitted events are moved to the node's FIFOs for later delivery.
func (n *Node) Retrieve() {
	n.M.VerifSignalRetrieve()
	n.runLoop("retrieve", func(ctx context.Context, _ chan<- error) { n.M.RetrieveLoop(ctx) }, func() bool {
		before := n.DAOf().NumCalls()
		time.Sleep(110 * time.Millisecond)
		synctest.Wait()
		for i := 0; i < 120 && n.DAOf().InFlight() > 0; i++ {
			// a fetch is hanging inside the DA layer: wait for the loop's own fetch timeout
			time.Sleep(time.Second)
			synctest.Wait()
		}
		return n.DAOf().NumCalls() != before
	})
	n.drain()
}

// RetrieveWithBacklog is Retrieve at a moment when the sync loop is so far behind that its header and data input
// channels are full (a long catch-up): the channels are filled with copies of `filler` events first (the sync loop
// would drop them as already seen), the scan runs until it waits for room, and only then is room made. What the scan
// found meanwhile must still arrive. The filler events are discarded.
func (n *Node) RetrieveWithBacklog(hFill block.NewHeaderEvent, dFill block.NewDataEvent) {
	hc, dc := n.M.VerifHeaderInCh(), n.M.VerifDataInCh()
	nh, nd := 0, 0
	for len(hc) < cap(hc) {
		hc <- hFill
		nh++
	}
	for len(dc) < cap(dc) {
		dc <- dFill
		nd++
	}
	n.M.VerifSignalRetrieve()
	n.runLoop("retrieve", func(ctx context.Context, _ chan<- error) { n.M.RetrieveLoop(ctx) }, func() bool {
		// the scan is waiting (for room, for a signal or for simulated time): make room once, then let it settle
		made := false
		for ; nh > 0; nh-- {
			<-hc
			made = true
		}
		for ; nd > 0; nd-- {
			<-dc
			made = true
		}
		if made {
			return true
		}
		before := n.DAOf().NumCalls()
		time.Sleep(110 * time.Millisecond)
		synctest.Wait()
		for i := 0; i < 120 && n.DAOf().InFlight() > 0; i++ {
			// a fetch is hanging inside the DA layer: wait for the loop's own fetch timeout
			time.Sleep(time.Second)
			synctest.Wait()
		}
		return n.DAOf().NumCalls() != before
	})
	n.drain()
}

// PollP2P signals the P2P store loops like the block ticker does.
func (n *Node) PollP2P() {
	n.M.VerifSignalHeaderStore()
	synctest.Wait()
	n.M.VerifSignalDataStore()
	synctest.Wait()
	n.drain()
}

// PollP2PBusy is PollP2P at a moment when the sync loop has not yet taken everything out of its input channels:
// the oldest undelivered header and data events (if any) are back in the channels while the P2P stores are polled.
func (n *Node) PollP2PBusy() {
	hc, dc := n.M.VerifHeaderInCh(), n.M.VerifDataInCh()
	if len(n.HeaderFIFO) > 0 {
		hc <- n.HeaderFIFO[0]
		n.HeaderFIFO = n.HeaderFIFO[1:]
	}
	if len(n.DataFIFO) > 0 {
		dc <- n.DataFIFO[0]
		n.DataFIFO = n.DataFIFO[1:]
	}
	n.PollP2P()
}

func (n *Node) drain() {
	hc, dc := n.M.VerifHeaderInCh(), n.M.VerifDataInCh()
	for {
		select {
		case e := <-hc:
			n.HeaderFIFO = append(n.HeaderFIFO, e)
			continue
		default:
		}
		break
	}
	for {
		select {
		case e := <-dc:
			n.DataFIFO = append(n.DataFIFO, e)
			continue
		default:
		}
		break
	}
}

// DeliverHeader hands one header event to the real SyncLoop and lets it run until blocked.
func (n *Node) DeliverHeader(e block.NewHeaderEvent) error {
	n.M.VerifHeaderInCh() <- e
	return n.runLoop("sync", n.M.SyncLoop, nil)
}

// DeliverData hands one data event to the real SyncLoop.
func (n *Node) DeliverData(e block.NewDataEvent) error {
	n.M.VerifDataInCh() <- e
	return n.runLoop("sync", n.M.SyncLoop, nil)
}

// ---- inspection (harness side, never fenced) ----

// Peek opens a fresh read handle on the durable image (independent of the incarnation).
func (n *Node) Peek() store.Store {
	d := n.Disk
	h := &Handle{d: d, epoch: -1}
	return store.New(ktds.Wrap(&peekHandle{h}, ktds.PrefixTransform{Prefix: ds.NewKey("0")}))
}

// PeekDS returns a read-only datastore view of the durable image, independent of incarnations (writes fail).
func (d *Disk) PeekDS() ds.Batching { return &peekHandle{&Handle{d: d, epoch: -1}} }

// peekHandle reads regardless of fences.
type peekHandle struct{ *Handle }

func (p *peekHandle) Get(ctx context.Context, key ds.Key) ([]byte, error) {
	v, ok := p.d.RawGet(key.String())
	if !ok {
		return nil, ds.ErrNotFound
	}
	return append([]byte(nil), v...), nil
}
func (p *peekHandle) Has(ctx context.Context, key ds.Key) (bool, error) {
	_, ok := p.d.RawGet(key.String())
	return ok, nil
}

// Height returns the durable chain height.
func (n *Node) Height() uint64 {
	h, _ := n.Peek().Height(context.Background())
	return h
}

// AbstractState summarises a node for the distinct-state measure and the event log.
func (n *Node) AbstractState() string {
	st := n.Peek()
	ctx := context.Background()
	h, _ := st.Height(ctx)
	s, err := st.GetState(ctx)
	sh := int64(-1)
	if err == nil {
		sh = int64(s.LastBlockHeight)
	}
	str := fmt.Sprintf("%s:alive=%v,inc=%d,h=%d,sh=%d", n.Cfg.Name, n.Alive, n.Incarnation, h, sh)
	if n.Alive && n.M != nil {
		str += fmt.Sprintf(",hw=%d,dw=%d,dai=%d,dah=%d", n.M.VerifLastSubmittedHeaderHeight(), n.M.VerifLastSubmittedDataHeight(), n.M.GetDAIncludedHeight(), n.M.VerifDAHeight())
	}
	return str
}

// ---- scripted sequencing double (C01) ----

// SeqResp is one scripted answer of the sequencing layer.
type SeqResp struct {
	Kind  int // 0 nil response, 1 nil batch, 2 empty batch, 3 non-empty batch, 4 error
	Txs   [][]byte
	Time  time.Time
	Given bool // set when handed out
}

// ScriptedSeq answers GetNextBatch from a script; when the script is empty it behaves well-formed
// (empty batch, current time).
type ScriptedSeq struct {
	mu      sync.Mutex
	Script  []*SeqResp
	Handed  []*SeqResp // every response handed out, in order
	Submits int
}

func (s *ScriptedSeq) SubmitBatchTxs(ctx context.Context, req coresequencer.SubmitBatchTxsRequest) (*coresequencer.SubmitBatchTxsResponse, error) {
	s.mu.Lock()
	defer s.mu.Unlock()
	s.Submits++
	return &coresequencer.SubmitBatchTxsResponse{}, nil
}

func (s *ScriptedSeq) GetNextBatch(ctx context.Context, req coresequencer.GetNextBatchRequest) (*coresequencer.GetNextBatchResponse, error) {
	s.mu.Lock()
	defer s.mu.Unlock()
	var r *SeqResp
	if len(s.Script) > 0 {
		r = s.Script[0]
		s.Script = s.Script[1:]
	} else {
		r = &SeqResp{Kind: 2, Time: time.Now()}
	}
	r.Given = true
	s.Handed = append(s.Handed, r)
	switch r.Kind {
	case 0:
		return nil, nil
	case 1:
		return &coresequencer.GetNextBatchResponse{Batch: nil, Timestamp: r.Time}, nil
	case 2:
		return &coresequencer.GetNextBatchResponse{Batch: &coresequencer.Batch{}, Timestamp: r.Time}, nil
	case 3:
		return &coresequencer.GetNextBatchResponse{Batch: &coresequencer.Batch{Transactions: r.Txs}, Timestamp: r.Time}, nil
	}
	return nil, errors.New("sim: sequencing layer unavailable")
}

func (s *ScriptedSeq) VerifyBatch(ctx context.Context, req coresequencer.VerifyBatchRequest) (*coresequencer.VerifyBatchResponse, error) {
	return &coresequencer.VerifyBatchResponse{Status: true}, nil
}
