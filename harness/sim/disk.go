// Package sim holds the simulated components shared by all checks: disk, DA layer, execution
// layer, P2P stores, fences, deterministic keys, and the seeded exploration driver.
package sim

import (
	"context"
	"errors"
	"fmt"
	"runtime"
	"sort"
	"strings"
	"sync"

	ds "github.com/ipfs/go-datastore"
	dsq "github.com/ipfs/go-datastore/query"
)

// ErrCrashed is returned by every seam once the incarnation that uses it has been killed.
var ErrCrashed = errors.New("sim: process crashed (incarnation fenced)")

// ErrDisk is an injected disk error.
var ErrDisk = errors.New("sim: injected disk error")

// Fence tracks which incarnation of a node is alive. Seams of dead incarnations have no effect.
type Fence struct {
	mu      sync.Mutex
	cur     int
	onCrash []func()
}

func NewFence() *Fence { return &Fence{} }

func (f *Fence) Epoch() int {
	f.mu.Lock()
	defer f.mu.Unlock()
	return f.cur
}

func (f *Fence) Alive(epoch int) bool {
	f.mu.Lock()
	defer f.mu.Unlock()
	return f.cur == epoch
}

// OnCrash registers a callback run (once) when the current incarnation is killed.
func (f *Fence) OnCrash(fn func()) {
	f.mu.Lock()
	defer f.mu.Unlock()
	f.onCrash = append(f.onCrash, fn)
}

// Kill ends the current incarnation.
func (f *Fence) Kill() {
	f.mu.Lock()
	f.cur++
	cbs := f.onCrash
	f.onCrash = nil
	f.mu.Unlock()
	for _, cb := range cbs {
		cb()
	}
}

// JournalEntry is one durable, atomic mutation of the disk.
type JournalEntry struct {
	Seq   int      `json:"seq"`
	Kind  string   `json:"kind"` // put | delete | batch
	Keys  []string `json:"keys"`
	Label string   `json:"label"`
}

type journalOp struct {
	del bool
	key string
	val []byte
}

// Disk is the durable image of one simulated key-value database plus its write journal.
// Crash model: process death. Every completed mutation survives, in order; a batch commit is atomic.
type Disk struct {
	mu      sync.Mutex
	data    map[string][]byte
	journal []JournalEntry
	ops     [][]journalOp // parallel to journal, for image reconstruction
	base    map[string][]byte
	fence   *Fence

	// crash control: when armed >= 0, the (armed+1)-th mutation from now does not happen and
	// kills the incarnation instead.
	armed      int
	CrashFired bool
	CrashLabel string // label of the write that was cut (the first write that did NOT happen)
	CrashPrev  string // label of the last write that did happen in the armed window

	// error injection: fail the next n mutations (without effect) with ErrDisk
	failWrites int
	// failAt >= 0: the (failAt+1)-th mutation from now is refused with ErrDisk (no effect), later ones succeed
	failAt    int
	FailLabel string // label of the refused write
	FailPrev  string // label of the last write that succeeded before it

	Reads, Writes int
	// Rejected counts the mutations refused because of FailNextWrites.
	Rejected int

	// Yield, when set, is called (no disk lock held) at the start of every mutation and read, and
	// again after every completed mutation: the seam a ParkSched uses to decide which caller goroutine
	// proceeds.
	Yield func()
	// ReadDelay, when set, is called with the key at the start of every point read (no disk lock held): the seam
	// for simulated read latency.
	ReadDelay func(key string)
}

func NewDisk(f *Fence) *Disk {
	if f == nil {
		f = NewFence()
	}
	return &Disk{data: map[string][]byte{}, base: map[string][]byte{}, fence: f, armed: -1, failAt: -1}
}

func (d *Disk) Fence() *Fence { return d.fence }

// Arm sets a crash to fire instead of the (k+1)-th mutation from now (k mutations still succeed).
func (d *Disk) Arm(k int) {
	d.mu.Lock()
	defer d.mu.Unlock()
	d.armed = k
	d.CrashFired = false
	d.CrashLabel = ""
	d.CrashPrev = "<start>"
}

// Disarm removes a pending crash and reports whether it had fired.
func (d *Disk) Disarm() bool {
	d.mu.Lock()
	defer d.mu.Unlock()
	d.armed = -1
	f := d.CrashFired
	d.CrashFired = false
	return f
}

// FailNextWrites makes the next n mutations fail with ErrDisk (no effect).
func (d *Disk) FailNextWrites(n int) {
	d.mu.Lock()
	defer d.mu.Unlock()
	d.failWrites = n
}

// FailAt makes the (k+1)-th mutation from now fail with ErrDisk, without effect (k < 0: disarm).
func (d *Disk) FailAt(k int) {
	d.mu.Lock()
	defer d.mu.Unlock()
	if k < 0 {
		k = -1
	}
	d.failAt = k
	d.FailLabel, d.FailPrev = "", ""
}

func (d *Disk) JournalLen() int {
	d.mu.Lock()
	defer d.mu.Unlock()
	return len(d.journal)
}

func (d *Disk) Journal() []JournalEntry {
	d.mu.Lock()
	defer d.mu.Unlock()
	return append([]JournalEntry(nil), d.journal...)
}

// Fork returns an independent disk holding the current image (journal reset).
func (d *Disk) Fork(f *Fence) *Disk {
	d.mu.Lock()
	defer d.mu.Unlock()
	n := NewDisk(f)
	for k, v := range d.data {
		n.data[k] = append([]byte(nil), v...)
		n.base[k] = n.data[k]
	}
	return n
}

// Snapshot returns a sorted copy of the image.
func (d *Disk) Snapshot() map[string][]byte {
	d.mu.Lock()
	defer d.mu.Unlock()
	out := make(map[string][]byte, len(d.data))
	for k, v := range d.data {
		out[k] = append([]byte(nil), v...)
	}
	return out
}

// Keys returns all keys in sorted order.
func (d *Disk) Keys() []string {
	d.mu.Lock()
	defer d.mu.Unlock()
	return d.sortedKeysLocked()
}

func (d *Disk) sortedKeysLocked() []string {
	keys := make([]string, 0, len(d.data))
	for k := range d.data {
		keys = append(keys, k)
	}
	sort.Strings(keys)
	return keys
}

// RawGet reads directly from the image (harness use; never fenced).
func (d *Disk) RawGet(key string) ([]byte, bool) {
	d.mu.Lock()
	defer d.mu.Unlock()
	v, ok := d.data[key]
	return v, ok
}

// LabelKey classifies a key for readable crash-boundary names.
func LabelKey(k string) string {
	// strip one leading node prefix like /0
	parts := strings.Split(strings.TrimPrefix(k, "/"), "/")
	if len(parts) > 1 && parts[0] == "0" {
		parts = parts[1:]
	}
	if len(parts) == 0 {
		return "?"
	}
	switch parts[0] {
	case "t":
		return "height"
	case "s":
		return "state"
	case "h":
		return "header"
	case "d":
		return "data"
	case "c":
		return "sig"
	case "i":
		return "index"
	case "m":
		if len(parts) > 1 {
			return "meta:" + strings.Join(parts[1:], "/")
		}
		return "meta"
	case "batches":
		return "queue"
	case "headerSync":
		return "p2p-header-store"
	case "dataSync":
		return "p2p-data-store"
	case "sequencer":
		return "based:" + strings.Join(parts[1:], "/")
	}
	if len(parts) == 1 && len(parts[0]) == 64 {
		return "seen-tx"
	}
	return "key:" + parts[0]
}

func labelOps(ops []journalOp) string {
	if len(ops) == 1 {
		l := LabelKey(ops[0].key)
		if ops[0].del {
			return "del(" + l + ")"
		}
		return l
	}
	seen := map[string]bool{}
	var ls []string
	for _, o := range ops {
		l := LabelKey(o.key)
		if !seen[l] {
			seen[l] = true
			ls = append(ls, l)
		}
	}
	return "batch[" + strings.Join(ls, ",") + "]"
}

// apply performs one atomic mutation on behalf of incarnation epoch.
func (d *Disk) apply(epoch int, kind string, ops []journalOp) error {
	if d.Yield != nil {
		d.Yield()
	}
	d.mu.Lock()
	if !d.fence.Alive(epoch) {
		d.mu.Unlock()
		return ErrCrashed
	}
	if d.failWrites > 0 {
		d.failWrites--
		d.Rejected++
		d.mu.Unlock()
		return ErrDisk
	}
	if d.failAt == 0 {
		d.failAt = -1
		d.Rejected++
		d.FailLabel = labelOps(ops)
		d.mu.Unlock()
		return ErrDisk
	}
	if d.failAt > 0 {
		d.failAt--
		d.FailPrev = labelOps(ops)
	}
	if d.armed == 0 {
		d.armed = -1
		d.CrashFired = true
		d.CrashLabel = labelOps(ops)
		d.mu.Unlock()
		d.fence.Kill()
		return ErrCrashed
	}
	if d.armed > 0 {
		d.armed--
		d.CrashPrev = labelOps(ops)
	}
	keys := make([]string, len(ops))
	for i, o := range ops {
		keys[i] = o.key
		if o.del {
			delete(d.data, o.key)
		} else {
			d.data[o.key] = append([]byte(nil), o.val...)
		}
	}
	d.journal = append(d.journal, JournalEntry{Seq: len(d.journal) + 1, Kind: kind, Keys: keys, Label: labelOps(ops)})
	d.ops = append(d.ops, ops)
	d.Writes++
	d.mu.Unlock()
	if d.Yield != nil {
		d.Yield()
	}
	return nil
}

// Open returns a datastore handle bound to the currently live incarnation.
func (d *Disk) Open() *Handle {
	return &Handle{d: d, epoch: d.fence.Epoch()}
}

// Handle implements ds.Batching over a Disk for one incarnation.
type Handle struct {
	d      *Disk
	epoch  int
	closed bool
}

var _ ds.Batching = (*Handle)(nil)

func (h *Handle) check() error {
	if h.d.Yield != nil {
		h.d.Yield()
	}
	if !h.d.fence.Alive(h.epoch) {
		return ErrCrashed
	}
	if h.closed {
		return errors.New("sim: datastore closed")
	}
	return nil
}

func (h *Handle) Get(ctx context.Context, key ds.Key) ([]byte, error) {
	if h.d.ReadDelay != nil {
		h.d.ReadDelay(key.String())
	}
	if err := h.check(); err != nil {
		return nil, err
	}
	h.d.mu.Lock()
	defer h.d.mu.Unlock()
	h.d.Reads++
	v, ok := h.d.data[key.String()]
	if !ok {
		return nil, ds.ErrNotFound
	}
	return append([]byte(nil), v...), nil
}

func (h *Handle) Has(ctx context.Context, key ds.Key) (bool, error) {
	if h.d.ReadDelay != nil {
		h.d.ReadDelay(key.String())
	}
	if err := h.check(); err != nil {
		return false, err
	}
	h.d.mu.Lock()
	defer h.d.mu.Unlock()
	h.d.Reads++
	_, ok := h.d.data[key.String()]
	return ok, nil
}

func (h *Handle) GetSize(ctx context.Context, key ds.Key) (int, error) {
	if h.d.ReadDelay != nil {
		h.d.ReadDelay(key.String())
	}
	if err := h.check(); err != nil {
		return -1, err
	}
	h.d.mu.Lock()
	defer h.d.mu.Unlock()
	v, ok := h.d.data[key.String()]
	if !ok {
		return -1, ds.ErrNotFound
	}
	return len(v), nil
}

func (h *Handle) Query(ctx context.Context, q dsq.Query) (dsq.Results, error) {
	if err := h.check(); err != nil {
		return nil, err
	}
	h.d.mu.Lock()
	h.d.Reads++
	keys := h.d.sortedKeysLocked()
	entries := make([]dsq.Entry, 0, len(keys))
	for _, k := range keys {
		v := h.d.data[k]
		e := dsq.Entry{Key: k, Size: len(v)}
		if !q.KeysOnly {
			e.Value = append([]byte(nil), v...)
		}
		entries = append(entries, e)
	}
	h.d.mu.Unlock()
	// apply prefix/filters/orders/limit/offset the naive way, on a key-ordered stream (LSM-like)
	qq := q
	res := dsq.ResultsWithEntries(q, entries)
	return dsq.NaiveQueryApply(qq, res), nil
}

func (h *Handle) Put(ctx context.Context, key ds.Key, value []byte) error {
	if h.closed {
		return errors.New("sim: datastore closed")
	}
	return h.d.apply(h.epoch, "put", []journalOp{{key: key.String(), val: value}})
}

func (h *Handle) Delete(ctx context.Context, key ds.Key) error {
	if h.closed {
		return errors.New("sim: datastore closed")
	}
	return h.d.apply(h.epoch, "delete", []journalOp{{del: true, key: key.String()}})
}

func (h *Handle) Sync(ctx context.Context, prefix ds.Key) error { return h.check() }

func (h *Handle) Close() error {
	h.closed = true
	return nil
}

func (h *Handle) Batch(ctx context.Context) (ds.Batch, error) {
	if err := h.check(); err != nil {
		return nil, err
	}
	return &batch{h: h}, nil
}

type batch struct {
	h   *Handle
	ops []journalOp
}

func (b *batch) Put(ctx context.Context, key ds.Key, value []byte) error {
	b.ops = append(b.ops, journalOp{key: key.String(), val: append([]byte(nil), value...)})
	return nil
}

func (b *batch) Delete(ctx context.Context, key ds.Key) error {
	b.ops = append(b.ops, journalOp{del: true, key: key.String()})
	return nil
}

func (b *batch) Commit(ctx context.Context) error {
	if b.h.closed {
		return errors.New("sim: datastore closed")
	}
	if len(b.ops) == 0 {
		return b.h.check()
	}
	ops := b.ops
	b.ops = nil
	return b.h.d.apply(b.h.epoch, "batch", ops)
}

// DescribeJournal renders journal entries [from:] compactly.
func DescribeJournal(j []JournalEntry, from int) string {
	var sb strings.Builder
	for i := from; i < len(j); i++ {
		if i > from {
			sb.WriteString(",")
		}
		sb.WriteString(j[i].Label)
	}
	return fmt.Sprintf("[%s]", sb.String())
}

// SpinJitter returns a datastore yield hook (Disk.Yield) that makes about one goroutine in three a slow one:
// each of its datastore operations first yields the processor n times (the others are not delayed at all), so
// that of two goroutines that become runnable at the same instant sometimes the one with fewer steps arrives
// last. No simulated time is spent (it could not be, under the locks the callers hold).
func SpinJitter(n int64, salt uint64) func() {
	return func() {
		b := make([]byte, 64)
		b = b[:runtime.Stack(b, false)]
		var gid uint64
		for _, c := range b[len("goroutine "):] {
			if c < '0' || c > '9' {
				break
			}
			gid = gid*10 + uint64(c-'0')
		}
		x := (gid + salt) * 0x9E3779B97F4A7C15
		x ^= x >> 29
		x *= 0xBF58476D1CE4E5B9
		x ^= x >> 32
		if x%3 != 0 {
			return
		}
		for k := n; k > 0; k-- {
			runtime.Gosched()
		}
	}
}
