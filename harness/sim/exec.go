package sim

import (
	"bytes"
	"context"
	"crypto/sha256"
	"encoding/binary"
	"errors"
	"fmt"
	"sync"
	"time"

	coreexecutor "github.com/evstack/ev-node/core/execution"
)

// ExecCall is one recorded call to the execution layer.
type ExecCall struct {
	Seq    int
	Op     string // init | gettxs | exec | final
	Epoch  int
	Height uint64
	Txs    [][]byte
	Prev   []byte
	Root   []byte
	Err    string
	At     time.Time
}

// SimExec is a deterministic execution layer: root(h) = H(prev || h || txs). It survives node
// crashes (it is another process in reality). GetTxs does not drain the mempool (interface contract);
// executed transactions are removed from it.
type SimExec struct {
	mu        sync.Mutex
	genesis   []byte
	inited    bool
	mempool   [][]byte
	Log       []ExecCall
	Finalized []uint64
	// ExecScript: per ExecuteTxs call, true = fail with an error.
	ExecScript []bool
	// roots by height as first computed (re-execution must reproduce)
	Roots map[uint64][]byte
	// Taken records every tx ever returned by GetTxs to a node (ground truth for C11).
	Taken [][]byte
	Stats map[string]int
	// Latency, when non-zero, is slept (simulated time) in ExecuteTxs and SetFinal (Engine N).
	Latency time.Duration
	// MaxBytes is the block size limit the execution layer reports (0 = the default 1 MiB). Harness-settable.
	MaxBytes uint64
	// FinalScript: per SetFinal call, true = fail with an error.
	FinalScript []bool
	// Yield, when set, is called (no lock held) at the start of every call a node makes: the seam for slow callers
	// (SpinJitter).
	Yield func()
	// stall, when non-nil, makes GetTxs wait until it is closed or the caller's context ends (a mempool query
	// that hangs and honours its context)
	stall chan struct{}
}

// StallGetTxs makes mempool queries hang (until ReleaseGetTxs or the caller's context ends).
func (e *SimExec) StallGetTxs() {
	e.mu.Lock()
	defer e.mu.Unlock()
	if e.stall == nil {
		e.stall = make(chan struct{})
	}
}

// ReleaseGetTxs ends a stall.
func (e *SimExec) ReleaseGetTxs() {
	e.mu.Lock()
	defer e.mu.Unlock()
	if e.stall != nil {
		close(e.stall)
		e.stall = nil
	}
}

func (e *SimExec) maxBytes() uint64 {
	if e.MaxBytes == 0 {
		return 1 << 20
	}
	return e.MaxBytes
}

// MaxFinalized returns the largest height SetFinal succeeded for.
func (e *SimExec) MaxFinalized() uint64 {
	e.mu.Lock()
	defer e.mu.Unlock()
	var m uint64
	for _, h := range e.Finalized {
		if h > m {
			m = h
		}
	}
	return m
}

func NewSimExec() *SimExec {
	return &SimExec{Roots: map[uint64][]byte{}, Stats: map[string]int{}}
}

func Root(prev []byte, h uint64, txs [][]byte) []byte {
	s := sha256.New()
	s.Write([]byte("root"))
	s.Write(prev)
	var b [8]byte
	binary.BigEndian.PutUint64(b[:], h)
	s.Write(b[:])
	for _, tx := range txs {
		binary.BigEndian.PutUint64(b[:], uint64(len(tx)))
		s.Write(b[:])
		s.Write(tx)
	}
	return s.Sum(nil)
}

// InjectTx adds a transaction to the mempool.
func (e *SimExec) InjectTx(tx []byte) {
	e.mu.Lock()
	defer e.mu.Unlock()
	e.mempool = append(e.mempool, append([]byte(nil), tx...))
}

func (e *SimExec) MempoolLen() int {
	e.mu.Lock()
	defer e.mu.Unlock()
	return len(e.mempool)
}

func (e *SimExec) log(c ExecCall) {
	c.Seq = len(e.Log) + 1
	c.At = time.Now()
	e.Log = append(e.Log, c)
}

// For returns the executor handle of one node incarnation.
func (e *SimExec) For(f *Fence) *NodeExec {
	if f == nil {
		f = NewFence()
	}
	return &NodeExec{e: e, fence: f, epoch: f.Epoch()}
}

// NodeExec is the coreexecutor.Executor a node incarnation talks to.
type NodeExec struct {
	e     *SimExec
	fence *Fence
	epoch int
}

var _ coreexecutor.Executor = (*NodeExec)(nil)

func (n *NodeExec) alive() error {
	if y := n.e.Yield; y != nil {
		y()
	}
	if !n.fence.Alive(n.epoch) {
		return ErrCrashed
	}
	return nil
}

func (n *NodeExec) InitChain(ctx context.Context, genesisTime time.Time, initialHeight uint64, chainID string) ([]byte, uint64, error) {
	if err := n.alive(); err != nil {
		return nil, 0, err
	}
	e := n.e
	e.mu.Lock()
	defer e.mu.Unlock()
	if !e.inited {
		h := sha256.Sum256([]byte(fmt.Sprintf("genesis/%s/%d", chainID, initialHeight)))
		e.genesis = h[:]
		e.inited = true
	}
	e.log(ExecCall{Op: "init", Epoch: n.epoch, Height: initialHeight, Root: e.genesis})
	return append([]byte(nil), e.genesis...), e.maxBytes(), nil
}

func (n *NodeExec) GetTxs(ctx context.Context) ([][]byte, error) {
	if err := n.alive(); err != nil {
		return nil, err
	}
	if err := ctx.Err(); err != nil {
		return nil, err
	}
	e := n.e
	e.mu.Lock()
	stall := e.stall
	e.mu.Unlock()
	if stall != nil {
		e.mu.Lock()
		e.Stats["gettxs-stalled"]++
		e.mu.Unlock()
		select {
		case <-stall:
		case <-ctx.Done():
			return nil, ctx.Err()
		}
	}
	e.mu.Lock()
	defer e.mu.Unlock()
	out := make([][]byte, len(e.mempool))
	for i, tx := range e.mempool {
		out[i] = append([]byte(nil), tx...)
	}
	e.Taken = append(e.Taken, out...)
	e.log(ExecCall{Op: "gettxs", Epoch: n.epoch, Txs: out})
	return out, nil
}

func (n *NodeExec) ExecuteTxs(ctx context.Context, txs [][]byte, blockHeight uint64, timestamp time.Time, prevStateRoot []byte) ([]byte, uint64, error) {
	if err := n.alive(); err != nil {
		return nil, 0, err
	}
	if err := ctx.Err(); err != nil {
		return nil, 0, err
	}
	e := n.e
	if e.Latency > 0 {
		select {
		case <-time.After(e.Latency):
		case <-ctx.Done():
			return nil, 0, ctx.Err()
		}
	}
	e.mu.Lock()
	defer e.mu.Unlock()
	cp := make([][]byte, len(txs))
	for i, tx := range txs {
		cp[i] = append([]byte(nil), tx...)
	}
	call := ExecCall{Op: "exec", Epoch: n.epoch, Height: blockHeight, Txs: cp, Prev: append([]byte(nil), prevStateRoot...)}
	if len(e.ExecScript) > 0 {
		fail := e.ExecScript[0]
		e.ExecScript = e.ExecScript[1:]
		if fail {
			e.Stats["exec:error"]++
			call.Err = "scripted"
			e.log(call)
			return nil, 0, errors.New("sim: execution layer unavailable")
		}
	}
	root := Root(prevStateRoot, blockHeight, txs)
	if _, ok := e.Roots[blockHeight]; !ok {
		e.Roots[blockHeight] = root
	}
	// executed transactions leave the mempool (first occurrence each)
	for _, tx := range txs {
		for i, m := range e.mempool {
			if bytes.Equal(m, tx) {
				e.mempool = append(e.mempool[:i], e.mempool[i+1:]...)
				break
			}
		}
	}
	call.Root = root
	e.Stats["exec:ok"]++
	e.log(call)
	return append([]byte(nil), root...), e.maxBytes(), nil
}

func (n *NodeExec) SetFinal(ctx context.Context, blockHeight uint64) error {
	if err := n.alive(); err != nil {
		return err
	}
	if err := ctx.Err(); err != nil {
		return err
	}
	e := n.e
	if e.Latency > 0 {
		select {
		case <-time.After(e.Latency):
		case <-ctx.Done():
			return ctx.Err()
		}
	}
	e.mu.Lock()
	defer e.mu.Unlock()
	if len(e.FinalScript) > 0 {
		fail := e.FinalScript[0]
		e.FinalScript = e.FinalScript[1:]
		if fail {
			e.Stats["final:error"]++
			return errors.New("sim: execution layer cannot finalize right now")
		}
	}
	e.Finalized = append(e.Finalized, blockHeight)
	e.log(ExecCall{Op: "final", Epoch: n.epoch, Height: blockHeight})
	return nil
}

// ExecCalls returns the recorded ExecuteTxs calls that succeeded.
func (e *SimExec) ExecCalls() []ExecCall {
	e.mu.Lock()
	defer e.mu.Unlock()
	var out []ExecCall
	for _, c := range e.Log {
		if c.Op == "exec" && c.Err == "" {
			out = append(out, c)
		}
	}
	return out
}

// FinalizeCalls returns the recorded SetFinal calls (with the epoch of the calling incarnation).
func (e *SimExec) FinalizeCalls() []ExecCall {
	e.mu.Lock()
	defer e.mu.Unlock()
	var out []ExecCall
	for _, c := range e.Log {
		if c.Op == "final" {
			out = append(out, c)
		}
	}
	return out
}

func (e *SimExec) FinalizedHeights() []uint64 {
	e.mu.Lock()
	defer e.mu.Unlock()
	return append([]uint64(nil), e.Finalized...)
}

func (e *SimExec) TakenTxs() [][]byte {
	e.mu.Lock()
	defer e.mu.Unlock()
	return append([][]byte(nil), e.Taken...)
}
