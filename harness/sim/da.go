package sim

import (
	"context"
	"crypto/sha256"
	"encoding/binary"
	"errors"
	"fmt"
	"sync"
	"time"

	coreda "github.com/evstack/ev-node/core/da"
)

// SubmitKind enumerates the outcomes a DA submission can have.
type SubmitKind int

const (
	SubAccept          SubmitKind = iota // all blobs accepted
	SubPrefix                            // only the first N accepted (fewer ids returned)
	SubTimeout                           // ErrTxTimedOut
	SubInMempool                         // ErrTxAlreadyInMempool
	SubTooBig                            // ErrBlobSizeOverLimit
	SubDeadline                          // ErrContextDeadline
	SubGeneric                           // generic error
	SubAckLost                           // blobs stored, error returned
	SubBlock                             // block until the caller's context is cancelled
	SubSeqErr                            // ErrTxIncorrectAccountSequence
	SubCrashBefore                       // the submitting node dies before the DA layer sees the blobs
	SubCrashAfter                        // the DA layer stores the blobs, the submitting node dies before the answer
	SubCanceled                          // the DA side reports a bare context.Canceled although the caller's context is live
	SubCanceledWrapped                   // the same, wrapped
	numSubmitKinds
)

var submitKindNames = []string{"accept", "prefix", "timeout", "in-mempool", "too-big", "deadline", "generic", "ack-lost", "block", "seq-err", "crash-before", "crash-after", "da-side-cancelled", "da-side-cancelled-wrapped"}

func (k SubmitKind) String() string { return submitKindNames[k] }

// SubmitOutcome is one scripted answer to SubmitWithOptions.
type SubmitOutcome struct {
	Kind    SubmitKind `json:"kind"`
	N       int        `json:"n,omitempty"`       // for SubPrefix: number accepted (clamped to [0,len-1] ... see below)
	Advance bool       `json:"advance,omitempty"` // close the DA height after this call (next submit lands one higher)
	// Decor decorates the error of an error kind the way real DA nodes do: 1 wrapped with context, 2 joined with
	// Go's context.DeadlineExceeded ("gave up waiting"), 3 the deadline error first and the DA error wrapped after it
	Decor int `json:"decor,omitempty"`
}

// ReadKind enumerates outcomes of fetching one DA height.
type ReadKind int

const (
	ReadOK ReadKind = iota
	ReadNotFoundErr
	ReadFuture
	ReadListErr
	ReadChunkErr
	// ReadSlowOK: the listing is answered correctly, but only after SlowRead of simulated time and without
	// regard to the caller's deadline (an in-process DA implementation, or a client library that does not
	// watch the context): a stalled dependency that finally delivers.
	ReadSlowOK
	numReadKinds
)

var readKindNames = []string{"ok", "not-found-err", "future", "list-err", "chunk-err", "slow-ok"}

func (k ReadKind) String() string { return readKindNames[k] }

// ReadOutcome is one scripted answer to a fetch of one height.
type ReadOutcome struct {
	Kind  ReadKind `json:"kind"`
	Chunk int      `json:"chunk,omitempty"` // for ReadChunkErr: index of the Get call (per height fetch) that fails
	// Flavor selects which error a failing listing / chunk fetch returns: 0 generic, 1 wraps
	// context.DeadlineExceeded, 2 wraps the DA interface's ErrContextDeadline, 3 wraps ErrTxTimedOut,
	// 4 the call hangs until the caller's deadline and returns its context error
	Flavor int `json:"flavor,omitempty"`
}

// InFlight reports how many read calls are currently parked inside the DA layer (hanging until their deadline).
func (d *SimDA) InFlight() int {
	d.mu.Lock()
	defer d.mu.Unlock()
	return d.inflight
}

// readErr builds the error of a failing read; it may block until ctx ends (flavor 4; d.mu must not be held).
func readErr(ctx context.Context, flavor int, what string) error {
	switch flavor % 6 {
	case 5:
		return fmt.Errorf("sim: rpc error: %s: %w", what, context.Canceled)
	case 1:
		return fmt.Errorf("sim: rpc error: %s: %w", what, context.DeadlineExceeded)
	case 2:
		return fmt.Errorf("sim: rpc error: %s: %w", what, coreda.ErrContextDeadline)
	case 3:
		return fmt.Errorf("sim: rpc error: %s: %w", what, coreda.ErrTxTimedOut)
	case 4:
		<-ctx.Done()
		return ctx.Err()
	}
	return errors.New("sim: rpc error: " + what)
}

// BlobRec is one blob stored on the DA layer.
type BlobRec struct {
	ID     []byte
	Data   []byte
	Height uint64
	By     string // who put it there
	Call   int    // sequence number of the submit call (0 for planted blobs)
}

// DACall is one recorded call.
type DACall struct {
	Seq      int
	Op       string // submit | getids | get
	By       string
	Epoch    int
	Height   uint64 // getids: requested height; submit: height the blobs landed at (0 if none)
	Blobs    [][]byte
	Accepted int
	Outcome  string
	IDs      [][]byte
	At       time.Time
	Probe    [2]uint64 // harness probe taken when the call arrived (e.g. persisted watermarks)
}

// SimDA is the simulated DA layer shared by all nodes of a world.
type SimDA struct {
	mu      sync.Mutex
	heights map[uint64][]*BlobRec
	byID    map[string]*BlobRec
	times   map[uint64]time.Time
	cur     uint64 // highest height that exists (is readable)
	serial  uint64

	SubmitScript []SubmitOutcome
	ReadScript   map[uint64][]ReadOutcome
	failChunk    map[uint64]int
	failFlavor   map[uint64]int
	deaf         map[uint64]bool
	inflight     int
	chunkIdx     map[uint64]int
	// AutoAdvance: with no script entry, every accepted submit closes the height.
	AutoAdvance bool
	// Outage: with no script entry, every submission fails with a generic error (the DA node is unavailable).
	Outage bool
	// OutageKinds, when set, are the (failing) outcomes an outage answers with, in rotation.
	OutageKinds []SubmitKind
	outageN     int
	// ReadOutage: with no script entry, every listing fails with a generic error (readers cannot reach the DA node).
	ReadOutage bool
	// MaxBlobBytes > 0 models a DA with a total-size limit: blobs beyond it are not taken (prefix).
	MaxBlobBytes uint64
	// EmptyStyle: how an existing but empty height is reported: 0 = empty id list, 1 = ErrBlobNotFound, 2 = nil result
	EmptyStyle int

	Log   []DACall
	Stats map[string]int
	// Probe, if set, is evaluated at every submit call and stored in the call record.
	Probe func() [2]uint64

	// spin guard: a caller that issues thousands of calls without simulated time passing is busy-looping.
	// Its calls are then parked until its context ends, so that the bubble can quiesce and the harness
	// can report what the call log shows.
	// Yield, when set, is called (no lock held) at the start of every read and listing: the seam for slow callers
	// (SpinJitter).
	Yield func()
	// CommitmentIDs: blob ids are height + commitment of the blob (identical blobs in one height share an id)
	// instead of height + serial number.
	CommitmentIDs bool
	// DeafSubmit: submissions do not watch the caller's context (see submit).
	DeafSubmit bool
	// SlowRead is how long a ReadSlowOK listing takes (default 31 s: longer than the retriever's per-request timeout).
	SlowRead time.Duration
	// Latency, when non-zero, is slept (simulated time, no lock held) at the start of every call (Engine N).
	Latency time.Duration

	spinAt    time.Time
	spinCount int
	Overrun   bool
}

// spinGuard must be called without d.mu held. It parks a busy-looping caller.
func (d *SimDA) spinGuard(ctx context.Context) {
	if y := d.Yield; y != nil {
		y()
	}
	d.mu.Lock()
	now := time.Now()
	if now.Equal(d.spinAt) {
		d.spinCount++
	} else {
		d.spinAt, d.spinCount = now, 0
	}
	over := d.spinCount > 3000
	if over {
		d.Overrun = true
	}
	lat := d.Latency
	d.mu.Unlock()
	if over {
		<-ctx.Done()
	}
	if lat > 0 {
		select {
		case <-time.After(lat):
		case <-ctx.Done():
		}
	}
}

func NewSimDA() *SimDA {
	return &SimDA{
		heights:    map[uint64][]*BlobRec{},
		byID:       map[string]*BlobRec{},
		times:      map[uint64]time.Time{},
		ReadScript: map[uint64][]ReadOutcome{},
		failChunk:  map[uint64]int{},
		failFlavor: map[uint64]int{},
		deaf:       map[uint64]bool{},
		chunkIdx:   map[uint64]int{},
		Stats:      map[string]int{},
	}
}

func makeID(height, serial uint64) []byte {
	id := make([]byte, 16)
	binary.LittleEndian.PutUint64(id, height)
	binary.BigEndian.PutUint64(id[8:], serial)
	return id
}

// Cur returns the highest readable height.
func (d *SimDA) Cur() uint64 {
	d.mu.Lock()
	defer d.mu.Unlock()
	return d.cur
}

// Advance makes n more heights exist (readable).
func (d *SimDA) Advance(n uint64) uint64 {
	d.mu.Lock()
	defer d.mu.Unlock()
	d.cur += n
	return d.cur
}

// SetCur raises cur to at least h.
func (d *SimDA) SetCur(h uint64) {
	d.mu.Lock()
	defer d.mu.Unlock()
	if h > d.cur {
		d.cur = h
	}
}

// Plant puts a blob at height h (which may be in the future) on behalf of a third party or the harness.
func (d *SimDA) Plant(h uint64, data []byte, by string) []byte {
	d.mu.Lock()
	defer d.mu.Unlock()
	return d.putLocked(h, data, by, 0).ID
}

func (d *SimDA) putLocked(h uint64, data []byte, by string, call int) *BlobRec {
	d.serial++
	id := makeID(h, d.serial)
	if d.CommitmentIDs {
		// like Celestia: an id is the height and the blob's commitment - two copies of a blob in one height share it
		sum := sha256.Sum256(data)
		id = make([]byte, 8, 40)
		binary.LittleEndian.PutUint64(id, h)
		id = append(id, sum[:]...)
	}
	rec := &BlobRec{ID: id, Data: append([]byte(nil), data...), Height: h, By: by, Call: call}
	d.heights[h] = append(d.heights[h], rec)
	d.byID[string(rec.ID)] = rec
	if _, ok := d.times[h]; !ok {
		d.times[h] = time.Now()
	}
	return rec
}

// BlobsAt returns the blobs stored at height h in order.
func (d *SimDA) BlobsAt(h uint64) []*BlobRec {
	d.mu.Lock()
	defer d.mu.Unlock()
	return append([]*BlobRec(nil), d.heights[h]...)
}

// AllBlobs returns all blobs ordered by (height, position).
func (d *SimDA) AllBlobs() []*BlobRec {
	d.mu.Lock()
	defer d.mu.Unlock()
	var maxH uint64
	for h := range d.heights {
		if h > maxH {
			maxH = h
		}
	}
	var out []*BlobRec
	for h := uint64(0); h <= maxH; h++ {
		out = append(out, d.heights[h]...)
	}
	return out
}

// MaxHeightWithBlobs returns the largest height holding a blob.
func (d *SimDA) MaxHeightWithBlobs() uint64 {
	d.mu.Lock()
	defer d.mu.Unlock()
	var maxH uint64
	for h, l := range d.heights {
		if len(l) > 0 && h > maxH {
			maxH = h
		}
	}
	return maxH
}

func (d *SimDA) logCall(c DACall) {
	c.Seq = len(d.Log) + 1
	c.At = time.Now()
	d.Log = append(d.Log, c)
}

// CallsSince returns the calls recorded after the first n.
func (d *SimDA) CallsSince(n int) []DACall {
	d.mu.Lock()
	defer d.mu.Unlock()
	return append([]DACall(nil), d.Log[n:]...)
}

func (d *SimDA) NumCalls() int {
	d.mu.Lock()
	defer d.mu.Unlock()
	return len(d.Log)
}

func (d *SimDA) submit(ctx context.Context, by string, epoch int, blobs [][]byte, fence *Fence) ([][]byte, error) {
	if d.DeafSubmit {
		// an in-process DA layer (or a client library) that does not watch the caller's context: the submission takes
		// its time and is answered whatever happened to the caller meanwhile
		d.spinGuard(context.Background())
	} else {
		d.spinGuard(ctx)
		if err := ctx.Err(); err != nil {
			return nil, err
		}
	}
	d.mu.Lock()
	// size limit, with the semantics of the repo's own DA implementations (DummyDA, local-da): blobs are
	// taken in order until the next one does not fit any more; meeting a blob that alone exceeds the limit
	// before that point fails the whole call. The size check is a function of the input alone and comes
	// first (it does not consume a scripted outcome).
	fit := len(blobs)
	if d.MaxBlobBytes > 0 {
		var sz uint64
		fit = 0
		for _, b := range blobs {
			if uint64(len(b)) > d.MaxBlobBytes {
				cp := make([][]byte, len(blobs))
				copy(cp, blobs)
				d.Stats["submit:too-big(single blob over limit)"]++
				d.logCall(DACall{Op: "submit", By: by, Epoch: epoch, Blobs: cp, Outcome: "too-big(single blob over limit)"})
				d.mu.Unlock()
				return nil, coreda.ErrBlobSizeOverLimit
			}
			if sz+uint64(len(b)) > d.MaxBlobBytes {
				break
			}
			sz += uint64(len(b))
			fit++
		}
	}
	out := SubmitOutcome{Kind: SubAccept, Advance: d.AutoAdvance}
	if d.Outage {
		out = SubmitOutcome{Kind: SubGeneric}
		if len(d.OutageKinds) > 0 {
			out.Kind = d.OutageKinds[d.outageN%len(d.OutageKinds)]
			d.outageN++
		}
	}
	if len(d.SubmitScript) > 0 {
		out = d.SubmitScript[0]
		d.SubmitScript = d.SubmitScript[1:]
	}
	d.Stats["submit:"+out.Kind.String()]++
	cp := make([][]byte, len(blobs))
	for i, b := range blobs {
		cp[i] = append([]byte(nil), b...)
	}
	call := DACall{Op: "submit", By: by, Epoch: epoch, Blobs: cp, Outcome: out.Kind.String()}
	if d.Probe != nil {
		call.Probe = d.Probe()
	}
	store := func(n int) [][]byte {
		h := d.cur + 1
		ids := make([][]byte, 0, n)
		for i := 0; i < n; i++ {
			rec := d.putLocked(h, blobs[i], by, len(d.Log)+1)
			ids = append(ids, rec.ID)
		}
		if n > 0 {
			call.Height = h
		}
		call.Accepted = n
		call.IDs = ids
		if out.Advance && n > 0 {
			d.cur++
		}
		return ids
	}
	var ids [][]byte
	var err error
	switch out.Kind {
	case SubAccept:
		if fit == 0 && len(blobs) > 0 {
			err = coreda.ErrBlobSizeOverLimit
			call.Outcome = "too-big(limit)"
		} else {
			ids = store(fit)
			if fit < len(blobs) {
				call.Outcome = "prefix(limit)"
				d.Stats["submit:prefix(limit)"]++
			}
		}
	case SubPrefix:
		// a function of what fits (not of the input length, which a size-trimming client changes): 1..fit-1
		n := out.N
		if fit <= 1 {
			n = fit
		} else {
			n = 1 + n%(fit-1)
		}
		if n == 0 {
			err = coreda.ErrBlobSizeOverLimit
		} else {
			ids = store(n)
		}
	case SubTimeout:
		err = coreda.ErrTxTimedOut
	case SubInMempool:
		err = coreda.ErrTxAlreadyInMempool
	case SubTooBig:
		err = coreda.ErrBlobSizeOverLimit
	case SubDeadline:
		err = coreda.ErrContextDeadline
	case SubSeqErr:
		err = coreda.ErrTxIncorrectAccountSequence
	case SubCanceled:
		err = context.Canceled
	case SubCanceledWrapped:
		err = fmt.Errorf("sim: upstream request aborted: %w", context.Canceled)
	case SubGeneric:
		err = errors.New("sim: DA node unavailable")
	case SubAckLost:
		store(fit)
		ids = nil
		err = errors.New("sim: connection reset while waiting for submit response")
	}
	if err != nil && out.Decor%4 != 0 {
		switch out.Decor % 4 {
		case 1:
			err = fmt.Errorf("sim: da node: %w", err)
		case 2:
			err = fmt.Errorf("%w: %w", err, context.DeadlineExceeded)
		case 3:
			err = fmt.Errorf("sim: gave up after 30s: %w (%w)", context.DeadlineExceeded, err)
		}
		d.Stats[fmt.Sprintf("submit:decorated-error-%d", out.Decor%4)]++
	}
	switch out.Kind {
	case SubCrashBefore:
		d.logCall(call)
		d.mu.Unlock()
		fence.Kill()
		return nil, ErrCrashed
	case SubCrashAfter:
		store(fit)
		d.logCall(call)
		d.mu.Unlock()
		fence.Kill()
		return nil, ErrCrashed
	case SubBlock:
		d.logCall(call)
		d.mu.Unlock()
		<-ctx.Done()
		return nil, ctx.Err()
	}
	d.logCall(call)
	d.mu.Unlock()
	return ids, err
}

func (d *SimDA) getIDs(ctx context.Context, by string, epoch int, height uint64) (*coreda.GetIDsResult, error) {
	d.spinGuard(ctx)
	if err := ctx.Err(); err != nil {
		return nil, err
	}
	d.mu.Lock()
	defer d.mu.Unlock()
	out := ReadOutcome{Kind: ReadOK}
	if d.ReadOutage {
		out = ReadOutcome{Kind: ReadListErr}
	}
	if s := d.ReadScript[height]; len(s) > 0 {
		out = s[0]
		d.ReadScript[height] = s[1:]
	}
	call := DACall{Op: "getids", By: by, Epoch: epoch, Height: height}
	delete(d.failChunk, height)
	delete(d.deaf, height)
	d.chunkIdx[height] = 0
	if height > d.cur {
		// a height that does not exist yet is always "from the future", whatever the script says
		call.Outcome = "future"
		d.Stats["read:future"]++
		d.logCall(call)
		return nil, fmt.Errorf("%w: requested %d, current %d", coreda.ErrHeightFromFuture, height, d.cur)
	}
	d.Stats["read:"+out.Kind.String()]++
	switch out.Kind {
	case ReadFuture:
		call.Outcome = "future(scripted)"
		d.logCall(call)
		return nil, fmt.Errorf("%w: requested %d", coreda.ErrHeightFromFuture, height)
	case ReadNotFoundErr:
		// a transient claim that nothing is there is only legal for heights that really hold nothing;
		// for heights with blobs this outcome degrades to a listing error.
		if len(d.heights[height]) == 0 {
			call.Outcome = "not-found-err"
			d.logCall(call)
			return nil, coreda.ErrBlobNotFound
		}
		fallthrough
	case ReadListErr:
		call.Outcome = fmt.Sprintf("list-err(flavor %d)", out.Flavor%6)
		d.Stats[fmt.Sprintf("read:err-flavor-%d", out.Flavor%6)]++
		d.logCall(call)
		if out.Flavor%6 == 4 {
			d.inflight++
			d.mu.Unlock()
			err := readErr(ctx, out.Flavor, "failed to list blobs")
			d.mu.Lock()
			d.inflight--
			return nil, err
		}
		return nil, readErr(ctx, out.Flavor, "failed to list blobs")
	case ReadChunkErr:
		d.failChunk[height] = out.Chunk
		d.failFlavor[height] = out.Flavor
	case ReadSlowOK:
		slow := d.SlowRead
		if slow == 0 {
			slow = 31 * time.Second
		}
		d.inflight++
		d.mu.Unlock()
		time.Sleep(slow)
		d.mu.Lock()
		d.inflight--
		d.deaf[height] = true
	}
	recs := d.heights[height]
	if len(recs) == 0 {
		call.Outcome = "empty"
		d.logCall(call)
		switch d.EmptyStyle {
		case 1:
			return nil, coreda.ErrBlobNotFound
		case 2:
			return nil, nil
		}
		return &coreda.GetIDsResult{IDs: [][]byte{}, Timestamp: time.Now()}, nil
	}
	ids := make([][]byte, len(recs))
	for i, r := range recs {
		ids[i] = append([]byte(nil), r.ID...)
	}
	call.Outcome = "ok"
	if out.Kind == ReadChunkErr {
		call.Outcome = fmt.Sprintf("ok(chunk %d will fail)", out.Chunk)
	}
	call.Accepted = len(ids)
	d.logCall(call)
	return &coreda.GetIDsResult{IDs: ids, Timestamp: d.times[height]}, nil
}

func (d *SimDA) get(ctx context.Context, by string, epoch int, ids [][]byte) ([][]byte, error) {
	d.spinGuard(ctx)
	d.mu.Lock()
	defer d.mu.Unlock()
	deaf := false // a fetch whose listing was a slow-ok one: this DA does not watch the caller's deadline
	if len(ids) > 0 {
		if h, _, err := coreda.SplitID(ids[0]); err == nil {
			deaf = d.deaf[h]
		}
	}
	if err := ctx.Err(); err != nil && !deaf {
		return nil, err
	}
	call := DACall{Op: "get", By: by, Epoch: epoch, Accepted: len(ids)}
	if len(ids) > 0 {
		h, _, err := coreda.SplitID(ids[0])
		if err == nil {
			call.Height = h
			idx := d.chunkIdx[h]
			d.chunkIdx[h] = idx + 1
			if fc, ok := d.failChunk[h]; ok && fc == idx {
				delete(d.failChunk, h)
				fl := d.failFlavor[h]
				call.Outcome = fmt.Sprintf("chunk-err(%d, flavor %d)", idx, fl%6)
				d.Stats["read:chunk-err-fired"]++
				d.Stats[fmt.Sprintf("read:err-flavor-%d", fl%6)]++
				d.logCall(call)
				if fl%6 == 4 {
					d.inflight++
					d.mu.Unlock()
					err := readErr(ctx, fl, "failed to fetch blobs")
					d.mu.Lock()
					d.inflight--
					return nil, err
				}
				return nil, readErr(ctx, fl, "failed to fetch blobs")
			}
			if idx > 0 {
				d.Stats["read:chunked-get"]++
			}
		}
	}
	out := make([][]byte, 0, len(ids))
	for _, id := range ids {
		rec, ok := d.byID[string(id)]
		if !ok {
			call.Outcome = "unknown-id"
			d.logCall(call)
			return nil, coreda.ErrBlobNotFound
		}
		out = append(out, append([]byte(nil), rec.Data...))
	}
	call.Outcome = "ok"
	d.logCall(call)
	return out, nil
}

// For returns the DA handle a node incarnation uses.
func (d *SimDA) For(by string, f *Fence) *NodeDA {
	if f == nil {
		f = NewFence()
	}
	return &NodeDA{da: d, by: by, fence: f, epoch: f.Epoch()}
}

// NodeDA is the coreda.DA a single node incarnation talks to.
type NodeDA struct {
	da    *SimDA
	by    string
	fence *Fence
	epoch int
}

var _ coreda.DA = (*NodeDA)(nil)

func (n *NodeDA) alive() error {
	if !n.fence.Alive(n.epoch) {
		return ErrCrashed
	}
	return nil
}

func (n *NodeDA) Get(ctx context.Context, ids []coreda.ID, namespace []byte) ([]coreda.Blob, error) {
	if err := n.alive(); err != nil {
		return nil, err
	}
	return n.da.get(ctx, n.by, n.epoch, ids)
}

func (n *NodeDA) GetIDs(ctx context.Context, height uint64, namespace []byte) (*coreda.GetIDsResult, error) {
	if err := n.alive(); err != nil {
		return nil, err
	}
	return n.da.getIDs(ctx, n.by, n.epoch, height)
}

func (n *NodeDA) GetProofs(ctx context.Context, ids []coreda.ID, namespace []byte) ([]coreda.Proof, error) {
	if err := n.alive(); err != nil {
		return nil, err
	}
	out := make([]coreda.Proof, len(ids))
	for i := range ids {
		out[i] = []byte("proof")
	}
	return out, nil
}

func (n *NodeDA) Commit(ctx context.Context, blobs []coreda.Blob, namespace []byte) ([]coreda.Commitment, error) {
	if err := n.alive(); err != nil {
		return nil, err
	}
	out := make([]coreda.Commitment, len(blobs))
	for i, b := range blobs {
		out[i] = b
	}
	return out, nil
}

func (n *NodeDA) Submit(ctx context.Context, blobs []coreda.Blob, gasPrice float64, namespace []byte) ([]coreda.ID, error) {
	return n.SubmitWithOptions(ctx, blobs, gasPrice, namespace, nil)
}

func (n *NodeDA) SubmitWithOptions(ctx context.Context, blobs []coreda.Blob, gasPrice float64, namespace []byte, options []byte) ([]coreda.ID, error) {
	if err := n.alive(); err != nil {
		return nil, err
	}
	return n.da.submit(ctx, n.by, n.epoch, blobs, n.fence)
}

func (n *NodeDA) Validate(ctx context.Context, ids []coreda.ID, proofs []coreda.Proof, namespace []byte) ([]bool, error) {
	if err := n.alive(); err != nil {
		return nil, err
	}
	out := make([]bool, len(ids))
	n.da.mu.Lock()
	defer n.da.mu.Unlock()
	for i, id := range ids {
		_, out[i] = n.da.byID[string(id)]
	}
	return out, nil
}

func (n *NodeDA) GasPrice(ctx context.Context) (float64, error)      { return 1, nil }
func (n *NodeDA) GasMultiplier(ctx context.Context) (float64, error) { return 1.5, nil }
