package sim

import (
	"bytes"
	"context"
	"encoding/binary"
	"fmt"
	"strings"

	"google.golang.org/protobuf/proto"

	"github.com/evstack/ev-node/types"
	pb "github.com/evstack/ev-node/types/pb/evnode/v1"
)

// This file holds the DA ledger: the harness's bookkeeping of what the DA layer accepted from a
// sequencer node, and the submission / watermark soundness oracles evaluated on the DA call log and the disk.

const (
	HWKey = "/0/m/last-submitted-header-height"
	DWKey = "/0/m/last-submitted-data-height"
)

func RawU64(d *Disk, key string) uint64 {
	v, ok := d.RawGet(key)
	if !ok || len(v) != 8 {
		return 0
	}
	return binary.LittleEndian.Uint64(v)
}

type BlobInfo struct {
	Kind   int // 0 header, 1 data, 2 junk
	Height uint64
	Hdr    *types.SignedHeader
	SD     *types.SignedData
}

func DecodeBlob(b []byte) BlobInfo {
	var hp pb.SignedHeader
	sh := new(types.SignedHeader)
	if err := proto.Unmarshal(b, &hp); err == nil && sh.FromProto(&hp) == nil && sh.ValidateBasic() == nil {
		return BlobInfo{Kind: 0, Height: sh.Height(), Hdr: sh}
	}
	var sd types.SignedData
	if err := sd.UnmarshalBinary(b); err == nil && sd.Metadata != nil {
		return BlobInfo{Kind: 1, Height: sd.Height(), SD: &sd}
	}
	return BlobInfo{Kind: 2}
}

// Ledger is the harness's bookkeeping of what the DA layer accepted from the sequencer node.
type Ledger struct {
	w        *World
	n        *Node
	ih       uint64
	callsPos int
	AccH     map[uint64]uint64 // height -> DA height of an accepted header blob
	AccD     map[uint64]uint64
	// AccHEpochs / AccDEpochs: the incarnations (fence epochs) of the submitting node in which the part was accepted
	// and the acceptance acknowledged to the node
	AccHEpochs map[uint64]map[int]bool
	AccDEpochs map[uint64]map[int]bool
	maxHW      uint64 // largest persisted header watermark seen
	maxDW      uint64
	memHW      uint64
	memDW      uint64
	memInc     int
}

func NewLedger(w *World, n *Node) *Ledger {
	l := &Ledger{w: w, n: n, ih: w.Genesis.InitialHeight, AccH: map[uint64]uint64{}, AccD: map[uint64]uint64{}, AccHEpochs: map[uint64]map[int]bool{}, AccDEpochs: map[uint64]map[int]bool{}}
	n.DAOf().Probe = func() [2]uint64 { return [2]uint64{RawU64(n.Disk, HWKey), RawU64(n.Disk, DWKey)} }
	return l
}

func (l *Ledger) BlockEmpty(h uint64) (bool, error) {
	_, d, err := l.n.Peek().GetBlockData(context.Background(), h)
	if err != nil {
		return false, err
	}
	return len(d.Txs) == 0, nil
}

// scan processes new DA calls; returns a violation description or "".
func (l *Ledger) Scan() (oracle, msg string) {
	ctx := context.Background()
	st := l.n.Peek()
	calls := l.n.DAOf().CallsSince(l.callsPos)
	l.callsPos += len(calls)
	for _, c := range calls {
		if c.Op != "submit" || c.By != l.n.Cfg.Name {
			continue
		}
		var infos []BlobInfo
		for _, b := range c.Blobs {
			infos = append(infos, DecodeBlob(b))
		}
		if len(infos) == 0 {
			continue
		}
		kind := infos[0].Kind
		for i, in := range infos {
			if in.Kind == 2 {
				return "C06/undecodable-blob-submitted", fmt.Sprintf("call #%d blob %d decodes neither as signed header nor as signed data", c.Seq, i)
			}
			if in.Kind != kind {
				return "C06/mixed-submission", fmt.Sprintf("call #%d mixes headers and data", c.Seq)
			}
		}
		first := infos[0].Height
		pers := c.Probe[kind]
		if first <= pers {
			return "C06/resubmitted-below-persisted-watermark", fmt.Sprintf("call #%d starts at height %d although the persisted watermark is already %d", c.Seq, first, pers)
		}
		if first < l.ih {
			return "C06/submitted-below-initial-height", fmt.Sprintf("call #%d starts at height %d, initial height %d", c.Seq, first, l.ih)
		}
		// nothing below first may be unaccepted
		for x := l.ih; x < first; x++ {
			if kind == 0 {
				if _, ok := l.AccH[x]; !ok {
					return "C06/skipped-unaccepted-header", fmt.Sprintf("call #%d starts at header %d but header %d was never accepted by the DA layer", c.Seq, first, x)
				}
			} else {
				empty, err := l.BlockEmpty(x)
				if err == nil && !empty {
					if _, ok := l.AccD[x]; !ok {
						return "C06/skipped-unaccepted-data", fmt.Sprintf("call #%d starts at data %d but the data of non-empty block %d was never accepted by the DA layer", c.Seq, first, x)
					}
				}
			}
		}
		for i, in := range infos {
			if i > 0 {
				prev := infos[i-1].Height
				if in.Height <= prev {
					return "C06/not-in-height-order", fmt.Sprintf("call #%d: height %d follows %d", c.Seq, in.Height, prev)
				}
				if kind == 0 && in.Height != prev+1 {
					return "C06/header-gap-in-submission", fmt.Sprintf("call #%d: header %d follows %d", c.Seq, in.Height, prev)
				}
				if kind == 1 {
					for x := prev + 1; x < in.Height; x++ {
						if empty, err := l.BlockEmpty(x); err == nil && !empty {
							return "C06/data-gap-in-submission", fmt.Sprintf("call #%d: data %d follows %d but block %d in between is not empty", c.Seq, in.Height, prev, x)
						}
					}
				}
			}
			hdr, d, err := st.GetBlockData(ctx, in.Height)
			if err != nil {
				return "C06/submitted-uncommitted-height", fmt.Sprintf("call #%d submits height %d which is not a committed block: %v", c.Seq, in.Height, err)
			}
			if kind == 0 {
				if !bytes.Equal(in.Hdr.Hash(), hdr.Hash()) {
					return "C06/blob-differs-from-committed-header", fmt.Sprintf("call #%d: header blob for height %d is not the committed header", c.Seq, in.Height)
				}
				if s := l.w.VerifySignedByProposer(in.Hdr); s != "" {
					return "C06/blob-not-signed-by-proposer", fmt.Sprintf("call #%d: %s", c.Seq, s)
				}
			} else {
				if len(in.SD.Txs) == 0 {
					return "C06/empty-data-submitted", fmt.Sprintf("call #%d submits the empty data of height %d", c.Seq, in.Height)
				}
				db, _ := in.SD.Data.MarshalBinary()
				cb, _ := d.MarshalBinary()
				if !bytes.Equal(db, cb) {
					return "C06/blob-differs-from-committed-data", fmt.Sprintf("call #%d: data blob for height %d is not the committed data", c.Seq, in.Height)
				}
				if in.SD.Signer.PubKey == nil || !in.SD.Signer.PubKey.Equals(l.w.ProposerPub) {
					return "C06/blob-not-signed-by-proposer", fmt.Sprintf("call #%d: signed data %d carries a foreign public key", c.Seq, in.Height)
				}
				if ok, err := l.w.ProposerPub.Verify(db, in.SD.Signature); err != nil || !ok {
					return "C06/blob-not-signed-by-proposer", fmt.Sprintf("call #%d: signature of signed data %d does not verify under the proposer's key", c.Seq, in.Height)
				}
			}
		}
		for i := 0; i < c.Accepted && i < len(infos); i++ {
			if strings.HasPrefix(c.Outcome, "accept") || strings.HasPrefix(c.Outcome, "prefix") {
				// only an acknowledged acceptance lets the submitting incarnation note it
				eps := l.AccHEpochs
				if kind != 0 {
					eps = l.AccDEpochs
				}
				if eps[infos[i].Height] == nil {
					eps[infos[i].Height] = map[int]bool{}
				}
				eps[infos[i].Height][c.Epoch] = true
			}
			if kind == 0 {
				if _, ok := l.AccH[infos[i].Height]; !ok {
					l.AccH[infos[i].Height] = c.Height
				}
			} else {
				if _, ok := l.AccD[infos[i].Height]; !ok {
					l.AccD[infos[i].Height] = c.Height
				}
			}
		}
	}
	return "", ""
}

// watermarks checks monotonicity and soundness of the persisted and in-memory watermarks.
func (l *Ledger) Watermarks() (oracle, msg string) {
	h := l.n.Height()
	check := func(name string, hw, dw uint64) (string, string) {
		if hw > h || dw > h {
			return "C06/watermark-beyond-chain-height", fmt.Sprintf("%s watermarks header=%d data=%d exceed the chain height %d", name, hw, dw, h)
		}
		for x := l.ih; x <= hw; x++ {
			if _, ok := l.AccH[x]; !ok {
				return "C06/watermark-past-unaccepted-header", fmt.Sprintf("%s header watermark is %d but the DA layer never accepted header %d", name, hw, x)
			}
		}
		for x := l.ih; x <= dw; x++ {
			if empty, err := l.BlockEmpty(x); err == nil && !empty {
				if _, ok := l.AccD[x]; !ok {
					return "C06/watermark-past-unaccepted-data", fmt.Sprintf("%s data watermark is %d but the DA layer never accepted the data of non-empty block %d", name, dw, x)
				}
			}
		}
		return "", ""
	}
	phw, pdw := RawU64(l.n.Disk, HWKey), RawU64(l.n.Disk, DWKey)
	if phw < l.maxHW || pdw < l.maxDW {
		return "C06/watermark-decreased", fmt.Sprintf("persisted watermarks went from header=%d data=%d to header=%d data=%d", l.maxHW, l.maxDW, phw, pdw)
	}
	l.maxHW, l.maxDW = phw, pdw
	if o, m := check("persisted", phw, pdw); o != "" {
		return o, m
	}
	if l.n.Alive {
		mhw, mdw := l.n.M.VerifLastSubmittedHeaderHeight(), l.n.M.VerifLastSubmittedDataHeight()
		if l.memInc == l.n.Incarnation && (mhw < l.memHW || mdw < l.memDW) {
			return "C06/watermark-decreased", fmt.Sprintf("in-memory watermarks went from header=%d data=%d to header=%d data=%d", l.memHW, l.memDW, mhw, mdw)
		}
		l.memInc, l.memHW, l.memDW = l.n.Incarnation, mhw, mdw
		if o, m := check("in-memory", mhw, mdw); o != "" {
			return o, m
		}
	}
	return "", ""
}

// allOnDA reports the first committed height whose header or non-empty data is not accepted yet.
func (l *Ledger) AllOnDA() string {
	h := l.n.Height()
	for x := l.ih; x <= h; x++ {
		if _, ok := l.AccH[x]; !ok {
			return fmt.Sprintf("header %d", x)
		}
		if empty, err := l.BlockEmpty(x); err == nil && !empty {
			if _, ok := l.AccD[x]; !ok {
				return fmt.Sprintf("data %d", x)
			}
		}
	}
	return ""
}

// CheckSubmissions evaluates everything the ledger has not looked at yet plus the watermarks (Engine N, post mortem).
func (l *Ledger) CheckSubmissions() string {
	if _, msg := l.Scan(); msg != "" {
		return msg
	}
	if _, msg := l.Watermarks(); msg != "" {
		return msg
	}
	return ""
}

// CheckFinalizeOrder checks that SetFinal was called for 1,2,3,... (a repeat only by a later incarnation).
func CheckFinalizeOrder(e *SimExec) string {
	var last uint64
	lastEpoch := -1
	for _, c := range e.FinalizeCalls() {
		switch {
		case c.Height == last+1:
		case c.Height == last && c.Epoch > lastEpoch:
		default:
			return fmt.Sprintf("execution layer asked to finalize %d after %d", c.Height, last)
		}
		last, lastEpoch = c.Height, c.Epoch
	}
	return ""
}

// CloneHeader returns a deep copy of a signed header (via its wire encoding).
func CloneHeader(h *types.SignedHeader) *types.SignedHeader {
	b, err := h.MarshalBinary()
	if err != nil {
		panic(err)
	}
	n := new(types.SignedHeader)
	if err := n.UnmarshalBinary(b); err != nil {
		panic(err)
	}
	return n
}

// CloneData returns a deep copy of block data (via its wire encoding).
func CloneData(d *types.Data) *types.Data {
	b, err := d.MarshalBinary()
	if err != nil {
		panic(err)
	}
	n := new(types.Data)
	if err := n.UnmarshalBinary(b); err != nil {
		panic(err)
	}
	return n
}
