package sim

import (
	"crypto/ed25519"
	"crypto/sha256"
	"fmt"

	"github.com/libp2p/go-libp2p/core/crypto"

	"github.com/evstack/ev-node/pkg/signer"
	"github.com/evstack/ev-node/pkg/signer/noop"
)

// KeyFromSeed derives a deterministic ed25519 libp2p key from a label.
func KeyFromSeed(label string) crypto.PrivKey {
	s := sha256.Sum256([]byte("verif-key/" + label))
	std := ed25519.NewKeyFromSeed(s[:])
	k, err := crypto.UnmarshalEd25519PrivateKey(std)
	if err != nil {
		panic(fmt.Sprintf("sim: key derivation failed: %v", err))
	}
	return k
}

// SignerFromSeed returns the repo's in-memory signer over a deterministic key.
func SignerFromSeed(label string) (signer.Signer, crypto.PrivKey) {
	k := KeyFromSeed(label)
	s, err := noop.NewNoopSigner(k)
	if err != nil {
		panic(err)
	}
	return s, k
}
