package checks

import (
	"bytes"
	"context"
	"fmt"
	"math/rand/v2"
	"strings"
	"testing"
	"time"

	ds "github.com/ipfs/go-datastore"

	kvexecutor "github.com/evstack/ev-node/apps/testapp/kv"

	"verif/harness/sim"
)

// C15 — reference execution layer: the state root depends only on the executed transactions.
//
// World: three real KVExecutors (hook constructor over the simulated disk): P is driven like a
// proposer, F like a follower, R is the reference that only executes blocks. The same blocks go to
// all three; P and F additionally get finalize calls (at different times), mempool injections,
// GetTxs, repeated InitChain and reopen (new executor object on the same durable image).
//
// ops: block(A=ntx,B=key space,C=variant)   execute the next block on all three instances, in a seeded instance order
//      bad(A=kind)                          a block containing a malformed transaction, on all three
//      again                                re-execute the previous block on P and F
//      final(A=instance,B=lag)              SetFinal(height-lag) on P or F
//      inject(A=instance) / gettxs(A)       mempool traffic on P or F
//      init(A=instance)                     InitChain again
//      reopen(A=instance)                   new executor on the same database

type kvInst struct {
	name string
	disk *sim.Disk
	ex   *kvexecutor.KVExecutor
}

func (k *kvInst) reopen() {
	k.disk.Fence().Kill()
	k.ex = kvexecutor.NewKVExecutorWithDB(k.disk.Open())
}

func c15Run(t *testing.T, s *sim.Scn) *sim.Outcome {
	o := sim.NewOutcome()
	ctx := context.Background()
	gt := time.Unix(946684800, 0).UTC()
	insts := []*kvInst{{name: "proposer"}, {name: "follower"}, {name: "reference"}}
	var genesisRoot []byte
	for _, in := range insts {
		in.disk = sim.NewDisk(nil)
		in.ex = kvexecutor.NewKVExecutorWithDB(in.disk.Open())
		root, _, err := in.ex.InitChain(ctx, gt, 1, "c15")
		if err != nil {
			o.Fail("C15/init-failed", "", -1, err.Error(), "InitChain succeeds")
			return o
		}
		if genesisRoot == nil {
			genesisRoot = root
		} else if !bytes.Equal(root, genesisRoot) {
			o.Fail("C15/genesis-roots-differ", "", -1, fmt.Sprintf("%s: %q vs %q", in.name, root, genesisRoot), "equal")
			return o
		}
	}
	model := map[string]string{} // normalised key -> value of the last transaction that wrote it
	prev := map[string][]byte{}
	for _, in := range insts {
		prev[in.name] = genesisRoot
	}
	height := uint64(0)
	var lastTxs [][]byte
	var lastRoot []byte
	lastPrev := map[string][]byte{} // per instance: the root the last block was executed on
	extras := 0
	execAll := func(step int, txs [][]byte, order int64) bool {
		height++
		var roots [3][]byte
		for k := 0; k < 3; k++ {
			idx := (int(order) + k) % 3
			in := insts[idx]
			lastPrev[in.name] = prev[in.name]
			root, _, err := in.ex.ExecuteTxs(ctx, txs, height, gt.Add(time.Duration(height)*time.Second), prev[in.name])
			if err != nil {
				o.Fail("C15/valid-block-failed", "", step, fmt.Sprintf("%s: block %d: %v", in.name, height, err), "a well-formed block executes")
				return false
			}
			roots[idx] = root
			prev[in.name] = root
		}
		if !bytes.Equal(roots[0], roots[2]) || !bytes.Equal(roots[1], roots[2]) {
			which := "proposer"
			if bytes.Equal(roots[0], roots[2]) {
				which = "follower"
			}
			o.Fail("C15/state-roots-diverge", "", step,
				fmt.Sprintf("after block %d the %s's state root differs from the reference that executed the same transactions: %q vs %q", height, which, truncate(roots[map[string]int{"proposer": 0, "follower": 1}[which]]), truncate(roots[2])),
				"the state root depends only on the ordered transactions executed so far")
			return false
		}
		lastTxs, lastRoot = txs, roots[2]
		return true
	}
	for i, op := range s.Ops {
		pf := insts[int(op.A)%2]
		switch op.K {
		case "block":
			n := int(op.A % 6)
			if op.C%13 == 6 {
				n = []int{513, 700, 1100}[op.A%3] // a large block
				o.Count("large-blocks", 1)
			}
			var txs [][]byte
			for j := 0; j < n; j++ {
				kn := (int(op.B) + j) % 5
				if op.C%3 == 1 {
					kn = (int(op.B) + j/2) % 5 // several writes to one key inside the block
				}
				key := fmt.Sprintf("k%d", kn)
				if op.C%7 == 3 {
					// application keys that look like bookkeeping but are not reserved: next to, below and above the
					// reserved ones
					key = []string{"finalized/height", "genesis/time", "genesis", "genesis/initialized/x", "finalizedHeight/x", "genesis/staterootx"}[(int(op.B)+j)%6]
					o.Count("near-reserved-keys", 1)
				}
				if op.C%2 == 1 {
					// other spellings of the same key: the datastore normalises paths, the executor trims blanks
					key = fmt.Sprintf([]string{"%s", "/%s", "%s/", "//%s", " %s ", "./%s"}[(int(op.C)+j)%6], key)
					o.Count("alias-spellings", 1)
				}
				val := fmt.Sprintf("v%d-%d", i, j)
				txs = append(txs, []byte(fmt.Sprintf("%s=%s", key, val)))
				model[ds.NewKey(strings.TrimSpace(key)).String()] = val
			}
			if !execAll(i, txs, op.C) {
				return o
			}
			// last writer wins, per normalised key, on every instance
			for _, in := range insts {
				for mk, mv := range model {
					if got, ok := in.ex.GetStoreValue(ctx, mk); !ok || got != mv {
						o.Fail("C15/value-is-not-last-write", "", i, fmt.Sprintf("%s: after block %d key %s reads %q (found=%v), the last transaction that wrote it carried %q", in.name, height, mk, got, ok, mv), "the state is the result of applying the transactions in order")
						return o
					}
				}
			}
			o.Count("blocks", 1)
		case "bad":
			var bad []byte
			switch op.A % 3 {
			case 0:
				bad = []byte("no-equals-sign")
			case 1:
				bad = []byte("=value-without-key")
			case 2:
				bad = []byte("/genesis/initialized=overwrite")
			}
			// the malformed transaction sits behind a seeded number of good ones (blocks of up to 1100 transactions)
			ngood := []int{1, 1, 30, 511, 512, 513, 700, 1100}[op.B%8]
			txs := make([][]byte, 0, ngood+4)
			txs = append(txs, []byte(fmt.Sprintf("good%d=1", i)))
			for j := 1; j < ngood; j++ {
				txs = append(txs, []byte(fmt.Sprintf("bulk%d-%04d=%d", i, j, j)))
			}
			txs = append(txs, bad, []byte(fmt.Sprintf("after%d=1", i)))
			o.Count(fmt.Sprintf("malformed-tx-behind-%d-good-ones", ngood), 1)
			for _, in := range insts {
				if _, _, err := in.ex.ExecuteTxs(ctx, txs, height+1, gt, prev[in.name]); err == nil {
					o.Fail("C15/malformed-block-accepted", "", i, fmt.Sprintf("%s executed a block containing %q", in.name, bad), "an error")
					return o
				}
				// nothing may have changed: executing an empty block returns the previous root, and the good tx is not visible
				root, _, err := in.ex.ExecuteTxs(ctx, nil, height+1, gt, prev[in.name])
				if err != nil || !bytes.Equal(root, prev[in.name]) {
					o.Fail("C15/malformed-block-changed-state", "", i, fmt.Sprintf("%s: state root changed after a failed block (err=%v)", in.name, err), "executing a block with a malformed transaction changes nothing")
					return o
				}
				for _, k := range []string{fmt.Sprintf("good%d", i), fmt.Sprintf("bulk%d-%04d", i, ngood/2), fmt.Sprintf("after%d", i)} {
					if _, ok := in.ex.GetStoreValue(ctx, k); ok {
						o.Fail("C15/malformed-block-changed-state", "", i, fmt.Sprintf("%s: transaction %q of the failed block (%d transactions before the malformed one) is visible", in.name, k, ngood), "nothing changes")
						return o
					}
				}
			}
			o.Count("malformed-blocks", 1)
		case "again":
			if height == 0 {
				continue
			}
			for _, in := range insts[:2] {
				// a replay passes what the first execution passed: the root before that block
				root, _, err := in.ex.ExecuteTxs(ctx, lastTxs, height, gt, lastPrev[in.name])
				if err != nil || !bytes.Equal(root, lastRoot) {
					o.Fail("C15/re-execution-changes-root", "", i, fmt.Sprintf("%s: re-executing block %d gives err=%v root=%q, first time %q", in.name, height, err, truncate(root), truncate(lastRoot)), "re-executing a block is harmless")
					return o
				}
			}
			o.Count("re-executions", 1)
		case "final":
			if height == 0 {
				continue
			}
			h := height
			if lag := uint64(op.B % 3); lag < h {
				h -= lag
			}
			if err := pf.ex.SetFinal(ctx, h); err != nil {
				o.Fail("C15/setfinal-failed", "", i, err.Error(), "finalizing an executed height succeeds")
				return o
			}
			extras++
			o.Count("finalize-calls", 1)
		case "inject":
			pf.ex.InjectTx([]byte(fmt.Sprintf("mempool%d=x", i)))
			extras++
			o.Count("mempool-injections", 1)
		case "gettxs":
			if _, err := pf.ex.GetTxs(ctx); err != nil {
				o.Fail("C15/gettxs-failed", "", i, err.Error(), "GetTxs succeeds")
				return o
			}
			extras++
		case "init":
			root, _, err := pf.ex.InitChain(ctx, gt, 1, "c15")
			if err != nil || !bytes.Equal(root, genesisRoot) {
				o.Fail("C15/initchain-not-idempotent", "", i, fmt.Sprintf("%s: repeated InitChain gives err=%v root=%q, first time %q", pf.name, err, truncate(root), truncate(genesisRoot)), "chain initialization is idempotent")
				return o
			}
			extras++
			o.Count("repeated-init", 1)
		case "reopen":
			pf.reopen()
			extras++
			o.Count("reopen", 1)
		}
		o.Logf("%d %s h=%d", i, op, height)
		o.States = append(o.States, fmt.Sprintf("h=%d extras=%d", height, extras))
	}
	// one more block at the end: any difference accumulated by the extras shows up here
	if !execAll(len(s.Ops), [][]byte{[]byte("final-key=final")}, 0) {
		return o
	}
	o.NonTrivial = o.Counters["blocks"] >= 2 && extras >= 1
	return o
}

func truncate(b []byte) string {
	if len(b) > 120 {
		return string(b[:120]) + "..."
	}
	return string(b)
}

func c15Gen(r *rand.Rand, tier string) *sim.Scn {
	s := &sim.Scn{Cfg: map[string]int64{}}
	n := 4 + r.IntN(40)
	for i := 0; i < n; i++ {
		switch x := r.IntN(100); {
		case x < 40:
			s.Ops = append(s.Ops, sim.Op{K: "block", A: r.Int64N(6), B: r.Int64N(5), C: r.Int64N(42)})
		case x < 48:
			s.Ops = append(s.Ops, sim.Op{K: "bad", A: r.Int64N(3), B: r.Int64N(8)})
		case x < 55:
			s.Ops = append(s.Ops, sim.Op{K: "again"})
		case x < 72:
			s.Ops = append(s.Ops, sim.Op{K: "final", A: r.Int64N(2), B: r.Int64N(3)})
		case x < 80:
			s.Ops = append(s.Ops, sim.Op{K: "inject", A: r.Int64N(2)})
		case x < 86:
			s.Ops = append(s.Ops, sim.Op{K: "gettxs", A: r.Int64N(2)})
		case x < 92:
			s.Ops = append(s.Ops, sim.Op{K: "init", A: r.Int64N(2)})
		default:
			s.Ops = append(s.Ops, sim.Op{K: "reopen", A: r.Int64N(2)})
		}
	}
	return s
}

func TestC15(t *testing.T) {
	sim.Main(t, &sim.Check{
		ID:    "C15",
		Level: "exploration",
		Rule: "seeded interleavings of execute / malformed block / re-execute / finalize (different timing on the two driven instances) / mempool injection / GetTxs / repeated InitChain / reopen on three real KVExecutors (proposer-like, follower-like, reference that only executes); per block the three roots must be equal. " +
			"distinct = distinct scenario hash; non-trivial = at least 2 blocks and at least one finalize/inject/init/reopen call executed",
		Assumptions: []string{"the executor's database is the simulated disk (ordered map); the real on-disk badger constructor is not used"},
		Components:  map[string]string{"apps/testapp/kv.KVExecutor": "real (hook constructor over injected datastore)", "datastore": "stub (SimDatastore)"},
		Gen:         c15Gen,
		Run:         c15Run,
		QuickBudget: 20 * time.Second, ThoroughBudget: 6 * time.Minute,
	})
}
