package checks

import (
	"bytes"
	"context"
	"fmt"
	"math/rand/v2"
	"os"
	"sort"
	"strings"
	"sync"
	"testing"
	"time"

	ds "github.com/ipfs/go-datastore"
	logging "github.com/ipfs/go-log/v2"
	mocknet "github.com/libp2p/go-libp2p/p2p/net/mock"
	"github.com/multiformats/go-multiaddr"

	"github.com/evstack/ev-node/node"
	"github.com/evstack/ev-node/pkg/config"
	"github.com/evstack/ev-node/pkg/p2p"
	"github.com/evstack/ev-node/pkg/p2p/key"
	"github.com/evstack/ev-node/sequencers/single"

	"verif/harness/sim"
)

// Whole-node configuration of C13 (second half of the C13 check, run without the race detector: under -race the
// go1.26.8 runtime / ThreadSanitizer itself crashes in this configuration - "CHECK failed tsan_rtl.cpp:346",
// SIGSEGV in runtime.(*timer).maybeRunChan - which is a toolchain problem, not a property of the code under test): real node.FullNode objects (real Run: P2P client, header and data sync
// services with go-header and gossipsub, worker fan-out, shutdown sequence incl. cache save) connected by a
// libp2p mocknet (no sockets; the RPC server is given an unusable address), all inside the bubble.

type fnode struct {
	name string
	sn   *sim.Node // durable parts: disk, execution double, root dir
	n    node.Node
	ret  time.Duration
	err  error
	done chan struct{}
}

func c13WholeBody(t *testing.T, s *sim.Scn, o *sim.Outcome) {
	start := time.Now()
	bt := time.Duration(max64(100, s.Cfg["bt"])) * time.Millisecond
	dat := time.Duration(max64(500, s.Cfg["dat"])) * time.Millisecond
	stopAt := time.Duration(s.Cfg["stop"]%max64(1, s.Cfg["run"]+1)) * time.Millisecond
	future := time.Duration(s.Cfg["future"]) * time.Millisecond
	w := sim.NewWorld(t, "c13n", 1)
	defer w.Close()
	w.Genesis.GenesisDAStartTime = time.Now().Add(future)
	mn := mocknet.New()
	defer mn.Close()
	logger := logging.Logger("verif")
	nfull := int(s.Cfg["nfull"] % 3)
	mk := func(idx int, name string, agg bool, peers string) (*fnode, string) {
		nk := &key.NodeKey{PrivKey: sim.KeyFromSeed("nodekey-" + name), PubKey: sim.KeyFromSeed("nodekey-" + name).GetPublic()}
		addr, _ := multiaddr.NewMultiaddr(fmt.Sprintf("/ip4/10.0.0.%d/tcp/7676", idx+1))
		h, err := mn.AddPeer(nk.PrivKey, addr)
		if err != nil {
			panic(err)
		}
		sn := w.AddNode(sim.NodeCfg{Name: name, Aggregator: agg, BlockTime: bt, DABlockTime: dat})
		if j := s.Cfg["jitter"]; j > 0 {
			// slow goroutines: about one in three yields the processor j times at each of its datastore operations
			sn.Disk.Yield = sim.SpinJitter(j, uint64(s.Cfg["jsalt"]))
			if idx == 0 {
				o.Count("fault:disk-scheduling-jitter", 1)
			}
		}
		cfg := config.DefaultConfig
		cfg.RootDir = sn.Root
		cfg.ChainID = w.Genesis.ChainID
		cfg.Node.Aggregator = agg
		cfg.Node.BlockTime = config.DurationWrapper{Duration: bt}
		cfg.Node.LazyMode = agg && s.Cfg["lazy"] == 1
		cfg.Node.LazyBlockInterval = config.DurationWrapper{Duration: 5 * bt}
		cfg.Node.MaxPendingHeadersAndData = uint64(s.Cfg["maxpending"])
		cfg.DA.BlockTime = config.DurationWrapper{Duration: dat}
		cfg.DA.MempoolTTL = 1
		cfg.RPC.Address = "invalid-address:99999999"
		cfg.Instrumentation = nil
		cfg.P2P.Peers = peers
		var db ds.Batching = sn.Disk.Open()
		pc, err := p2p.NewClientWithHost(cfg, nk, db, logger, p2p.NopMetrics(), h)
		if err != nil {
			panic(err)
		}
		da := w.DA.For(name, sn.Fence)
		m, _ := single.NopMetrics()
		seq, err := single.NewSequencer(context.Background(), logger, db, da, []byte(w.Genesis.ChainID), bt, m, agg)
		if err != nil {
			panic(err)
		}
		sg := w.Signer
		if !agg {
			sg = nil
		}
		n, err := node.NewNode(context.Background(), cfg, sn.Exec.For(sn.Fence), seq, da, sg, pc, w.Genesis, db, node.DefaultMetricsProvider(config.DefaultInstrumentationConfig()), logger, node.NodeOptions{})
		if err != nil {
			panic(fmt.Sprintf("NewNode %s: %v", name, err))
		}
		return &fnode{name: name, sn: sn, n: n, done: make(chan struct{})}, fmt.Sprintf("%s/p2p/%s", addr, h.ID())
	}
	agg, aggAddr := mk(0, "seq", true, "")
	nodes := []*fnode{agg}
	for i := 0; i < nfull; i++ {
		f, _ := mk(i+1, fmt.Sprintf("full%d", i+1), false, aggAddr)
		nodes = append(nodes, f)
	}
	if err := mn.LinkAll(); err != nil {
		panic(err)
	}
	w.DA.Latency = time.Duration(s.Cfg["dalat"]) * time.Millisecond
	for _, n := range nodes {
		n.sn.Exec.Latency = time.Duration(s.Cfg["execlat"]) * time.Millisecond
	}
	for _, op := range s.Ops {
		if op.K == "da" {
			w.DA.SubmitScript = append(w.DA.SubmitScript, sim.SubmitOutcome{Kind: sim.SubmitKind(op.A % 10), N: int(op.B)})
		}
	}
	ledger := sim.NewLedger(w, agg.sn)
	ctx, cancel := context.WithCancel(context.Background())
	var mu sync.Mutex
	var stopped time.Time
	for i, n := range nodes {
		n := n
		delay := time.Duration(i) * 700 * time.Millisecond // full nodes join a little later
		go func() {
			defer close(n.done)
			if delay > 0 {
				select {
				case <-time.After(delay):
				case <-ctx.Done():
					return
				}
			}
			n.err = n.n.Run(ctx)
			mu.Lock()
			if !stopped.IsZero() {
				n.ret = time.Since(stopped)
			}
			mu.Unlock()
		}()
	}
	envDone := make(chan struct{})
	var envWG sync.WaitGroup
	envWG.Add(2)
	go func() {
		defer envWG.Done()
		tk := time.NewTicker(dat)
		defer tk.Stop()
		for {
			select {
			case <-envDone:
				return
			case <-tk.C:
				w.DA.Advance(1)
			}
		}
	}()
	type inj struct {
		at time.Duration
		n  int
	}
	var injs []inj
	for i, op := range s.Ops {
		if op.K == "tx" {
			injs = append(injs, inj{time.Duration(op.A%max64(1, s.Cfg["run"]))*time.Millisecond + time.Duration(i+1)*time.Microsecond, 1 + int(op.B%3)})
		}
	}
	sort.Slice(injs, func(i, j int) bool { return injs[i].at < injs[j].at })
	go func() {
		defer envWG.Done()
		k := 0
		for _, in := range injs {
			d := in.at - time.Since(start)
			if d > 0 {
				select {
				case <-envDone:
					return
				case <-time.After(d):
				}
			}
			for j := 0; j < in.n; j++ {
				k++
				agg.sn.Exec.InjectTx([]byte(fmt.Sprintf("k%d=v%d", k, k)))
			}
		}
	}()
	if hang := time.Duration(s.Cfg["mempoolhang"]) * time.Millisecond; hang > 0 && hang < stopAt {
		// the execution layer's mempool query hangs (and honours its context) from a little before the stop
		time.Sleep(stopAt - hang)
		agg.sn.Exec.StallGetTxs()
		o.Count("mempool-query-hangs-at-stop", 1)
		time.Sleep(hang)
	} else {
		time.Sleep(stopAt)
	}
	mu.Lock()
	stopped = time.Now()
	mu.Unlock()
	cancel()
	for _, n := range nodes {
		select {
		case <-n.done:
		case <-time.After(30 * time.Minute):
			sim.EmergencyReport("C13", s, &sim.Violation{Oracle: "C13/node-never-shuts-down", Sig: "C13/node-never-shuts-down/" + n.name, Step: -1,
				Observed: fmt.Sprintf("asked to stop at %v: %s.Run has not returned 30 minutes of simulated time later", stopAt, n.name), Expected: "the node shuts down without hanging"})
		}
	}
	close(envDone)
	envWG.Wait()
	o.SimTime = time.Since(start)
	var worst time.Duration
	worstName := ""
	for _, n := range nodes {
		if n.ret > worst {
			worst, worstName = n.ret, n.name
		}
	}
	o.Logf("whole nodes: stop at %v, slowest %s shut down after %v", stopAt, worstName, worst)
	// node.Run gives its services 9 s to stop after the workers returned; the workers themselves must return promptly
	if worst > 12*time.Second {
		o.Fail("C13/node-does-not-shut-down-promptly", "C13/node-does-not-shut-down-promptly/"+worstName, -1,
			fmt.Sprintf("asked to stop at %v (genesis %v in the future): %s.Run returned %v of simulated time later", stopAt, future, worstName, worst), "the node shuts down without hanging (within its own 9 s service budget plus prompt workers)")
		return
	}
	// post-mortem invariants on the durable images
	ah := agg.sn.Height()
	if ah >= 1 {
		if msg, _ := w.VerifyChain(agg.sn.Peek(), 1, ah, nil); msg != "" {
			o.Fail("C13/invariant-C01-violated", "", -1, "whole node: "+msg, "valid chain on every interleaving")
			return
		}
	}
	if msg := ledger.CheckSubmissions(); msg != "" {
		o.Fail("C13/invariant-C06-violated", "", -1, "whole node: "+msg, "sound submissions on every interleaving")
		return
	}
	if msg := sim.CheckFinalizeOrder(agg.sn.Exec); msg != "" {
		o.Fail("C13/invariant-C07-violated", "", -1, "whole node sequencer: "+msg, "finalize in order")
		return
	}
	bg := context.Background()
	for _, f := range nodes[1:] {
		fh := f.sn.Height()
		for x := uint64(1); x <= fh; x++ {
			a, _, e1 := agg.sn.Peek().GetBlockData(bg, x)
			b, _, e2 := f.sn.Peek().GetBlockData(bg, x)
			if e1 != nil || e2 != nil || !bytes.Equal(a.Hash(), b.Hash()) {
				o.Fail("C13/invariant-C02-violated", "", -1, fmt.Sprintf("whole node %s at height %d: block %d differs from the proposer's or is missing (%v/%v)", f.name, fh, x, e1, e2), "prefix of the proposer's chain")
				return
			}
		}
		if msg := sim.CheckFinalizeOrder(f.sn.Exec); msg != "" {
			o.Fail("C13/invariant-C07-violated", "", -1, "whole node "+f.name+": "+msg, "finalize in order")
			return
		}
		o.Count("whole-node:blocks-synced", int(fh))
	}
	o.Count("whole-node:blocks-produced", int(ah))
	o.Count("whole-node-runs", 1)
	o.NonTrivial = true
}

func c13WholeRun(t *testing.T, s *sim.Scn) *sim.Outcome {
	o := sim.NewOutcome()
	if s.Cfg["initfrom"] > 0 {
		c13InitScenario(s, o)
		return o
	}
	body := c13WholeBody
	if s.Cfg["backlog"] == 1 {
		body = c13BacklogBody
	}
	if s.Cfg["restart"] == 1 {
		body = c13RestartBody
	}
	var p any
	if s.Cfg["restart"] == 1 {
		// cfg repeat=n: the timeline is run up to n times (fresh world each time) - for directed timelines whose
		// outcome depends on which of two goroutines is first at one instant
		for rep := int64(0); ; rep++ {
			sub := sim.NewOutcome()
			var dump string
			p, dump = sim.BubbleWall(t, func() { body(t, s, sub) }, 60*time.Second)
			if p == sim.BubbleStalled {
				c13Stalled(s, sub, dump)
				p = nil
			}
			o.Absorb(sub)
			if sub.NonTrivial {
				o.NonTrivial = true
			}
			if p != nil || o.V != nil || rep+1 >= s.Cfg["repeat"] {
				break
			}
		}
	} else {
		p = sim.Bubble(t, func() { body(t, s, o) })
	}
	if p != nil {
		msg := fmt.Sprint(p)
		if strings.Contains(msg, "deadlock") {
			// goroutines of libp2p / go-header / mocknet that stay parked after Run has returned are not activities
			// of the node; Run returning (checked in the body) is what the statement asks for
			o.Count("whole-node:library-goroutines-left-parked", 1)
		} else {
			o.Fail("C13/panic", "", -1, msg, "no panic")
		}
	}
	return o
}

// c13Stalled classifies a restart timeline whose bubble stopped making progress. If some goroutine is spending
// simulated network time (simNetDelay) the fake clock is held up by a goroutine waiting for a sync.Mutex whose
// holder waits for that time (go-header validates gossip and fetches headers under one mutex): a limit of the
// simulator, counted as inconclusive. Otherwise nothing in the bubble waits for time and yet it does not
// finish: goroutines of the code under test wait for each other.
func c13Stalled(s *sim.Scn, o *sim.Outcome, dump string) {
	o.V = nil
	o.NonTrivial = false
	var waits []string
	busy := false
	for _, blk := range strings.Split(dump, "\n\n") {
		head := strings.SplitN(blk, "\n", 2)[0]
		if !strings.Contains(head, "synctest bubble") {
			continue
		}
		if strings.Contains(head, "[running") || strings.Contains(head, "[runnable") {
			busy = true
		}
		if !strings.Contains(head, "(durable)") {
			lines := strings.Split(blk, "\n")
			if len(lines) > 14 {
				lines = lines[:14]
			}
			waits = append(waits, strings.Join(lines, " | "))
		}
	}
	switch {
	case busy:
		// goroutines keep running at one instant of simulated time (e.g. a retry loop on the zero-latency network)
		o.Count("inconclusive:busy-at-one-instant-of-simulated-time", 1)
		return
	case strings.Contains(dump, "simNetDelay"):
		o.Count("inconclusive:fake-clock-held-up-by-a-lock-across-simulated-network-wait", 1)
		return
	}
	if len(waits) > 3 {
		waits = waits[:3]
	}
	o.Fail("C13/activities-wait-for-each-other", "", -1, fmt.Sprintf("the simulated clock stopped: nothing in the bubble runs or waits for simulated time, and these goroutines are not durably blocked: %s", strings.Join(waits, " || ")), "every activity makes progress or returns")
}

// c13RestartDirected: two timelines that once broke the tree in about one run in eight (which goroutine is first
// at one instant decides), each repeated 8 times: (1) a sequencer node killed and started again while a full node
// is connected and asking for its head; (2) a sequencer node killed around its first block, then a full node that
// is stopped and has to start again from what the sequencer's P2P stores can serve.
func c13RestartDirected() []*sim.Scn {
	return []*sim.Scn{
		{Cfg: map[string]int64{"restart": 1, "nfull": 0, "bt": 500, "dat": 1000, "eager": 1, "repeat": 8},
			Ops: []sim.Op{{K: "run", A: 5000}, {K: "kill", A: 0}, {K: "run", A: 1000}, {K: "start", A: 0}, {K: "run", A: 3000}}},
		{Cfg: map[string]int64{"restart": 1, "nfull": 0, "bt": 1000, "dat": 1000, "dalat": 5, "maxpending": 3, "repeat": 8},
			Ops: []sim.Op{{K: "start", A: 0}, {K: "kill", A: 0}, {K: "start", A: 2}, {K: "tx", B: 1}, {K: "run", A: 5281}, {K: "stop", A: 1}, {K: "kill", A: 0}, {K: "tx", B: 2}, {K: "tx", B: 1}}},
		// the sequencer is killed before its P2P stores were first flushed and comes back after more than a block
		// time, with slow goroutines: what seeds the empty stores and the first publication are due at the same instant
		{Cfg: map[string]int64{"restart": 1, "nfull": 0, "bt": 500, "dat": 1000, "eager": 1, "repeat": 8, "readlat": 3},
			Ops: []sim.Op{{K: "run", A: 1200}, {K: "kill", A: 0}, {K: "run", A: 2000}, {K: "start", A: 0}, {K: "run", A: 4000}}},
		// a clean stop of the sequencer in the middle of a submission that the DA layer completes and acknowledges all
		// the same: what it notes on the way down must be in what it saves
		{Cfg: map[string]int64{"restart": 1, "nfull": 0, "bt": 250, "dat": 1000, "deafda": 1, "dalat": 900, "repeat": 3},
			Ops: []sim.Op{{K: "run", A: 3000}, {K: "tx", B: 1}, {K: "run", A: 700}, {K: "stop", A: 0}, {K: "start", A: 0}, {K: "run", A: 4000}}},
		// found with scheduling jitter: a full node starts while the sequencer publishes; the gossiped head and the
		// first sync of go-header's syncer append the same header (repaired in the store wrapper, cd64817)
		{Cfg: map[string]int64{"restart": 1, "nfull": 0, "bt": 500, "dat": 1000, "dalat": 5, "lazy": 1, "jitter": 4000, "jsalt": 453177065, "repeat": 24},
			Ops: []sim.Op{{K: "run", A: 5847}, {K: "tx", B: 1}, {K: "stop", A: 2}, {K: "heal"}, {K: "tx", B: 2}, {K: "tx", B: 1}, {K: "kill", A: 2}, {K: "run", A: 3252}, {K: "run", A: 6798}, {K: "hang"}, {K: "stop"}, {K: "stop", A: 3}}},
		{Cfg: map[string]int64{"restart": 1, "nfull": 1, "bt": 250, "dat": 1000, "repeat": 8, "readlat": 1},
			Ops: []sim.Op{{K: "run", A: 700}, {K: "kill", A: 0}, {K: "run", A: 1500}, {K: "start", A: 0}, {K: "run", A: 4000}}},
	}
}

// c13InitDirected: every schedule (all 2^11 choice prefixes) of "first header / first data item written
// vs. head lookup" and of "restart on a non-empty header store: three headers published vs. two head
// lookups" on the real sync services.
func c13InitDirected() []*sim.Scn {
	var out []*sim.Scn
	for kind := int64(0); kind < 3; kind++ {
		out = append(out, &sim.Scn{Cfg: map[string]int64{"initkind": kind, "initfrom": 1, "initto": 2048}})
	}
	// what go-header's syncer does to the store wrapper: duplicate appends from two goroutines (repair cd64817)
	out = append(out, &sim.Scn{Cfg: map[string]int64{"initkind": 3, "initfrom": 1, "initto": 512}})
	// the four families once more, 32 schedules each, free-running in the race-detector build of this package
	for kind := int64(0); kind < 4; kind++ {
		out = append(out, &sim.Scn{Cfg: map[string]int64{"initkind": kind, "initfrom": 1, "initto": 32, "initrace": 1}})
	}
	return out
}

func c13WholeGen(r *rand.Rand, tier string) *sim.Scn {
	if r.IntN(3) == 0 || os.Getenv("VERIF_C13_RESTART_ONLY") != "" {
		return c13RestartGen(r, tier)
	}
	run := int64(3000 + r.IntN(37000))
	s := &sim.Scn{Cfg: map[string]int64{
		"node": 1, "nfull": r.Int64N(3), "bt": []int64{250, 500, 1000, 2000}[r.IntN(4)], "dat": []int64{1000, 3000, 6000}[r.IntN(3)], "run": run, "stop": r.Int64N(run + 1),
		"lazy": r.Int64N(2), "maxpending": []int64{0, 0, 2, 5}[r.IntN(4)], "dalat": []int64{0, 5, 50, 300}[r.IntN(4)], "execlat": []int64{0, 0, 20, 400}[r.IntN(4)],
		"jitter": []int64{0, 0, 0, 400, 4000}[r.IntN(5)], "jsalt": r.Int64N(1 << 30),
	}}
	if tier != "thorough" && s.Cfg["jitter"] > 400 {
		s.Cfg["jitter"] = 400 // the slowest goroutines make a whole-node scenario take minutes: thorough tier only
	}
	if r.IntN(4) == 0 {
		s.Cfg["mempoolhang"] = int64(50 + r.IntN(3000))
	}
	if r.IntN(3) == 0 {
		s.Cfg["future"] = int64(1000 + r.IntN(60000))
		if r.IntN(2) == 0 {
			s.Cfg["stop"] = r.Int64N(s.Cfg["future"] + 1)
			if s.Cfg["stop"] > run {
				s.Cfg["stop"] = run
			}
		}
	}
	ntx := r.IntN(40)
	for i := 0; i < ntx; i++ {
		s.Ops = append(s.Ops, sim.Op{K: "tx", A: r.Int64N(run), B: r.Int64N(3)})
	}
	nf := r.IntN(8)
	for i := 0; i < nf; i++ {
		s.Ops = append(s.Ops, sim.Op{K: "da", A: []int64{1, 2, 3, 4, 5, 6, 7, 9}[r.IntN(8)], B: r.Int64N(4)})
	}
	return s
}

// TestC13W is run by bin/check after the race-detector half of C13; it merges its numbers into evidence/C13.json.
func TestC13W(t *testing.T) {
	sim.Main(t, &sim.Check{
		ID:          "C13",
		Level:       "exploration",
		Rule:        "second half (no race detector): whole node.FullNode objects - real Run incl. P2P client, header/data sync services (go-header, gossipsub), worker fan-out and the shutdown sequence - for an aggregator and 0-2 syncing full nodes over a libp2p mocknet inside the bubble; seeded stimuli, faults, latencies and stop instant; oracle: Run returns within 12 s of simulated time after the stop, post-mortem C01/C02/C06/C07 invariants on the durable images. Directed: the real header and data sync services (go-header store, exchange server, gossip subscriber over the mocknet) receive their first item through WriteToStoreAndBroadcast while a second task looks up the store's head (what a peer's head request and gossip validation do); and, third configuration, a restarted header service on a non-empty store publishes three further headers while two tasks look up the head; all 2^11 choice prefixes of a park-and-release scheduler over the datastore operations of the tasks are run (in child processes, because the failure mode is log.Fatal) and none may end the process",
		Assumptions: []string{"whole-node half runs without -race (the toolchain's race runtime crashes in this configuration)", "library goroutines left parked after Run returned are not judged", "the RPC/metrics HTTP servers are configured away"},
		Components:  map[string]string{"node.FullNode.Run (start-up, worker fan-out, shutdown, cache save)": "real", "pkg/p2p, pkg/sync (go-header, gossipsub)": "real over libp2p mocknet", "block.Manager loops": "real, concurrent"},
		Gen:         c13WholeGen,
		Run:         c13WholeRun,
		// directed: stop while a catching-up full node has more headers queued than the event channel holds
		Directed: append(append([]*sim.Scn{{Cfg: map[string]int64{"backlog": 1, "blocks": 10300, "stopms": 300}}, {Cfg: map[string]int64{"backlog": 1, "blocks": 500, "stopms": 100}}}, c13InitDirected()...), c13RestartDirected()...),
		Workers:  8,
		MaxQuick: 200, MaxThorough: 2500,
		ReplayAttempts: 20,
		QuickBudget:    20 * time.Second, ThoroughBudget: 10 * time.Minute,
	})
}
