package checks

import (
	"bytes"
	"context"
	"fmt"
	"math/rand/v2"
	"os"
	"strings"
	"testing"
	"time"

	"github.com/libp2p/go-libp2p/core/peer"
	mocknet "github.com/libp2p/go-libp2p/p2p/net/mock"
	"github.com/multiformats/go-multiaddr"

	"github.com/evstack/ev-node/pkg/p2p/key"

	"verif/harness/sim"
)

// C05, whole-node families (cfg whole=1): a real sequencer node and a real full node (node.FullNode: P2P
// client, go-header header/data stores, DA retrieve loop, P2P store loops, sync loop, DA includer) over a
// libp2p mocknet under the fake clock. While the full node follows the chain, its (k+1)-th durable write
// - block store, P2P stores, peer store - kills the incarnation (process death: database fenced, cache
// files as they were). A new node object is started on the durable image; it must stay up and, with the
// sequencer producing and publishing to a healthy DA layer all along, reach the height the sequencer had
// when it was restarted, with a chain identical to the sequencer's. k runs until the crash no longer fires.

func c05WholeOnce(t *testing.T, s *sim.Scn, k int, o *sim.Outcome) (fired bool) {
	p, dump := sim.BubbleWall(t, func() {
		start := time.Now()
		rw := &rworld{t: t, s: s, o: o}
		rw.bt = time.Duration(max64(100, s.Cfg["bt"])) * time.Millisecond
		rw.dat = time.Duration(max64(500, s.Cfg["dat"])) * time.Millisecond
		rw.w = sim.NewWorld(t, "c05w", 1)
		defer rw.w.Close()
		rw.mn = mocknet.New()
		defer rw.mn.Close()
		rw.streamDelay = time.Duration(20+s.Cfg["linkms"]%40) * time.Millisecond
		for i := 0; i <= 1; i++ {
			name := []string{"seq", "full1"}[i]
			priv := sim.KeyFromSeed("nodekey-" + name)
			addr, _ := multiaddr.NewMultiaddr(fmt.Sprintf("/ip4/10.0.0.%d/tcp/7676", i+1))
			pid, _ := peer.IDFromPublicKey(priv.GetPublic())
			rn := &rnode{name: name, idx: i, agg: i == 0, nk: &key.NodeKey{PrivKey: priv, PubKey: priv.GetPublic()}, addr: addr, pid: pid}
			rn.sn = rw.w.AddNode(sim.NodeCfg{Name: name, Aggregator: i == 0, BlockTime: rw.bt, DABlockTime: rw.dat})
			rw.nodes = append(rw.nodes, rn)
			if i == 0 {
				rw.aggAddr = fmt.Sprintf("%s/p2p/%s", addr, pid)
			}
		}
		rw.applyJitter()
		agg, full := rw.nodes[0], rw.nodes[1]
		rw.w.DA.AutoAdvance = true
		stopAll := func() {
			for _, rn := range rw.nodes {
				rw.stop(rn, false, -1)
			}
		}
		txn := 0
		inject := func(n int) {
			for j := 0; j < n; j++ {
				txn++
				agg.sn.Exec.InjectTx([]byte(fmt.Sprintf("k%d=v%d", txn, txn)))
			}
		}
		rw.start(agg)
		if o.V != nil {
			return
		}
		// the sequencer runs ahead for a while (the full node will have a backlog), then the full node joins
		lead := time.Duration(s.Cfg["lead"]) * time.Millisecond
		for el := time.Duration(0); el < lead+rw.bt+200*time.Millisecond; el += rw.bt {
			if s.Cfg["txs"] > 0 && int64(el/rw.bt)%s.Cfg["txs"] == 0 {
				inject(1)
			}
			time.Sleep(rw.bt)
		}
		if s.Cfg["p2pcut"] == 1 {
			full.cut = true // DA is the full node's only source
		}
		rw.start(full)
		if o.V != nil {
			stopAll()
			return
		}
		time.Sleep(time.Duration(s.Cfg["warm"]) * time.Millisecond)
		if !rw.reap(-1, "warm-up") {
			stopAll()
			return
		}
		if !full.up {
			stopAll()
			return // the full node was refused at start-up (no genesis header yet): nothing to crash
		}
		files := readImage(full.sn.Root)
		full.sn.Disk.Arm(k)
		window := 4*rw.bt + 2*rw.dat
		for el := time.Duration(0); el < window && !full.sn.Disk.CrashFired; el += 50 * time.Millisecond {
			if s.Cfg["txs"] > 0 && int64(el/(50*time.Millisecond))%(4*s.Cfg["txs"]) == 0 {
				inject(1)
			}
			time.Sleep(50 * time.Millisecond)
		}
		fired = full.sn.Disk.Disarm()
		if !fired {
			stopAll()
			return
		}
		cut := digitsRe.ReplaceAllString(full.sn.Disk.CrashPrev+"|"+full.sn.Disk.CrashLabel, "N")
		o.Count("whole-node-crash-cut:"+digitsRe.ReplaceAllString(full.sn.Disk.CrashLabel, "N"), 1)
		full.cancel()
		select {
		case <-full.done:
		case <-time.After(30 * time.Minute):
			sim.EmergencyReport("C05", s, &sim.Violation{Oracle: "C05/dying-node-never-returns", Sig: "C05/dying-node-never-returns", Step: k, Observed: "the killed full node's Run never returned (harness cannot continue)", Expected: "returns"})
			return
		}
		full.up = false
		full.closeHost()
		restoreDir(full.sn.Root, files)
		onDisk := full.sn.Height()
		fail := func(oracle, obs, exp string) {
			o.Fail(oracle, oracle+"/cut="+cut, k, fmt.Sprintf("[whole full node, crash point %d, cut %s, height on disk after the crash %d] %s", k, cut, onDisk, obs), exp)
		}
		// the image right after the crash: every height up to the recorded chain height has the proposer's block
		bg := context.Background()
		for x := uint64(1); x <= onDisk; x++ {
			a, _, e1 := agg.sn.Peek().GetBlockData(bg, x)
			b, _, e2 := full.sn.Peek().GetBlockData(bg, x)
			if e1 != nil || e2 != nil || !bytes.Equal(a.Hash(), b.Hash()) {
				fail("C05/recorded-height-without-block", fmt.Sprintf("recorded chain height %d but block %d differs from the proposer's or is missing (%v/%v)", onDisk, x, e1, e2), "every height up to the recorded chain height has the proposer's block")
				stopAll()
				return
			}
		}
		// (recorded state vs. recorded height is judged once the node has been started again and stopped cleanly:
		// start-up repairs a height that lags the state by one, see the Manager-level families)
		// cfg seqdown=1: the sequencer node goes offline (cleanly, after everything it produced has reached the DA
		// layer) before the full node is started again: the DA layer is then the full node's only source
		rooted := false // (a full node whose P2P stores are still empty needs a peer to start at all: by design)
		if st, err := p2pHeaderStore(full); err == nil {
			if _, err := st.Head(bg); err == nil && p2pDataStoreHeight(full) > 0 {
				rooted = true
			}
		}
		if s.Cfg["seqdown"] == 1 && agg.up && rooted {
			time.Sleep(8*rw.dat + 4*rw.bt)
			if !rw.stop(agg, false, k) {
				return
			}
			o.Count("whole-node-restart:sequencer-offline", 1)
		}
		// restart (the operator retries a refused start), then the node must stay up and catch up
		var target uint64
		gaveUp := 0
		var lastErr error
		healthy := false
		for attempt := 0; attempt < 4 && !healthy; attempt++ {
			rw.start(full)
			if o.V != nil {
				stopAll()
				return
			}
			target = agg.sn.Height()
			if !agg.up {
				// the sequencer is offline: what can still be reached is what the DA layer holds
				led := sim.NewLedger(rw.w, agg.sn)
				_ = led.CheckSubmissions()
				onDA := uint64(0)
				for x := uint64(1); x <= target; x++ {
					_, hok := led.AccH[x]
					dok := true
					if empty, err := led.BlockEmpty(x); err == nil && !empty {
						_, dok = led.AccD[x]
					}
					if !hok || !dok {
						break
					}
					onDA = x
				}
				target = onDA
			}
			stillUp := true
			budget := 40*rw.dat + 60*time.Second
			for el := time.Duration(0); el < budget && stillUp; el += rw.dat {
				time.Sleep(rw.dat)
				select {
				case <-full.done:
					stillUp = false
				default:
				}
				if full.sn.Height() >= target && el > 3*rw.dat {
					break
				}
			}
			if stillUp {
				healthy = full.sn.Height() >= target
				break
			}
			full.up = false
			full.closeHost()
			full.sn.Fence.Kill()
			lastErr = full.err
			if lastErr != nil && strings.Contains(lastErr.Error(), "error while starting") {
				o.Count("whole-node-restart:start-refused", 1)
				attempt--
				gaveUp++
				if gaveUp > 8 {
					break
				}
				time.Sleep(2 * time.Second)
				continue
			}
			gaveUp++
			o.Count("whole-node-restart:node-gave-up", 1)
		}
		if !healthy {
			what := fmt.Sprintf("stays up but is at height %d after 40 DA block times + 60 s; the proposer was at %d when it was restarted (and is at %d now)", full.sn.Height(), target, agg.sn.Height())
			if !full.up {
				what = fmt.Sprintf("shut itself down %d times (Run returned: %v); height %d", gaveUp, lastErr, full.sn.Height())
			}
			fail("C05/whole-node-not-converged-after-crash", "restarted on the durable image, the full node "+what, "after a restart the full node continues syncing and reaches the proposer's chain")
			stopAll()
			return
		}
		stopAll()
		if o.V != nil {
			return
		}
		fh := full.sn.Height()
		for x := uint64(1); x <= fh; x++ {
			a, _, e1 := agg.sn.Peek().GetBlockData(bg, x)
			b, _, e2 := full.sn.Peek().GetBlockData(bg, x)
			if e1 != nil || e2 != nil || !bytes.Equal(a.Hash(), b.Hash()) {
				fail("C05/diverged-after-recovery", fmt.Sprintf("height %d: block %d differs from the proposer's or is missing (%v/%v)", fh, x, e1, e2), "identical to the proposer's chain")
				return
			}
		}
		if msg := rw.w.CheckQuiescent(full.sn.Peek()); msg != "" {
			fail("C05/state-does-not-match-height", "final: "+msg, "state corresponds to the chain height")
			return
		}
		o.SimTime += time.Since(start)
		o.States = append(o.States, fmt.Sprintf("whole/%s", cut))
	}, 90*time.Second)
	if p == sim.BubbleStalled {
		if strings.Contains(dump, "simNetDelay") {
			o.Count("inconclusive:fake-clock-held-up-by-a-lock-across-simulated-network-wait", 1)
		} else {
			o.Count("inconclusive:bubble-made-no-progress", 1)
		}
		o.V = nil
		return false
	}
	if p != nil {
		msg := fmt.Sprint(p)
		if !strings.Contains(msg, "deadlock") {
			o.Fail("C05/panic", "", k, fmt.Sprintf("[whole full node, crash point %d] %v", k, p), "no panic")
		}
	}
	return fired
}

func c05WholeRun(t *testing.T, s *sim.Scn) *sim.Outcome {
	o := sim.NewOutcome()
	images := 0
	step := int(max64(1, s.Cfg["kstep"]))
	maxMembers := 400
	if os.Getenv("VERIF_TIER") != "thorough" && os.Getenv("VERIF_REPLAY") == "" {
		maxMembers = 10 // quick tier: a sample of the family (seeded first index and stride)
	}
	for k := int(s.Cfg["k0"]); k < 400 && images < maxMembers && o.V == nil; k += step {
		sub := sim.NewOutcome()
		fired := c05WholeOnce(t, s, k, sub)
		o.Absorb(sub)
		images++
		o.Logf("member k=%d fired=%v counters=%v", k, fired, sub.Counters)
		if !fired {
			break
		}
		o.Count("whole-node-crash-points", 1)
	}
	o.Count("crash-images-restarted", images)
	o.NonTrivial = o.Counters["whole-node-crash-points"] >= 3
	return o
}

func c05WholeGen(r *rand.Rand, tier string) *sim.Scn {
	s := &sim.Scn{Cfg: map[string]int64{"whole": 1, "bt": []int64{200, 500, 1000}[r.IntN(3)], "dat": []int64{1000, 2000}[r.IntN(2)], "p2pcut": r.Int64N(2),
		"lead": []int64{0, 1000, 5000, 12000}[r.IntN(4)], "warm": []int64{0, 300, 1500, 4000}[r.IntN(4)], "txs": r.Int64N(3), "linkms": r.Int64N(40), "jitter": []int64{0, 0, 0, 400, 4000}[r.IntN(5)], "jsalt": r.Int64N(1 << 30),
		"k0": r.Int64N(3), "kstep": 1 + r.Int64N(4), "eager": r.Int64N(2), "seqdown": []int64{0, 0, 1}[r.IntN(3)]}}
	if tier == "thorough" {
		s.Cfg["kstep"] = 1
		s.Cfg["k0"] = 0
	}
	if tier != "thorough" && s.Cfg["jitter"] > 400 {
		s.Cfg["jitter"] = 400 // the slowest goroutines make a whole-node scenario take minutes: thorough tier only
	}
	return s
}
