package checks

import (
	"context"
	"fmt"
	"math/rand/v2"
	"testing"
	"time"

	"verif/harness/sim"
)

// C11 — no transaction taken from the mempool is lost on its way into the chain.
//
// World: real aggregator (Manager + Reaper + single sequencer on one disk) with the execution double
// as mempool. A scenario is a family: a history of tx arrivals (unique bytes and repeats), reaps,
// productions, clean restarts and kills, with a bounded queue so that hand-offs get refused; one
// marked operation (a reap or a production, S="*") has every durable-write boundary enumerated as a
// crash point. After the history the node drains (reap/produce rounds). Oracle: every distinct
// transaction GetTxs ever returned to the node is in a committed block; non-empty blocks follow the
// release order of the sequencing layer; without any crash no transaction is included more often
// than it was injected.

func c11Once(t *testing.T, s *sim.Scn, k int, o *sim.Outcome) (fired bool) {
	p := sim.Bubble(t, func() {
		start := time.Now()
		w := sim.NewWorld(t, "c11", 1)
		defer w.Close()
		// a pending-block limit (cfg maxpending) makes production decline while that many blocks wait for the DA layer;
		// what was taken from the mempool must wait with it, not vanish
		maxPending := uint64(s.Cfg["maxpending"])
		n := w.AddNode(sim.NodeCfg{Name: "seq", Aggregator: true, QueueSize: int(max64(1, s.Cfg["queue"])), MaxPending: maxPending})
		w.DA.AutoAdvance = true
		r := newAggRun(w, n, o)
		if !r.start(-1, "C11") {
			return
		}
		// the block size limit the execution layer reports (a sequencing layer is free to ignore it)
		n.Exec.MaxBytes = uint64(s.Cfg["maxbytes"])
		anyCrash := false
		cut := ""
		for i, op := range s.Ops {
			kk := -1
			marked := op.S == "*"
			if marked {
				kk = k
			}
			op2 := op
			op2.S = ""
			if op.K == "produce" && op.A == 1 {
				// the execution layer refuses this one block (a transient error): production fails, the node
				// stops and is started again; what it had taken for the block must not be forgotten
				n.Exec.ExecScript = []bool{true}
				o.Count("fault:execution-error-in-production", 1)
			}
			f, err := r.exec(op2, kk)
			n.Exec.ExecScript = nil
			if marked {
				fired = f
				if f {
					cut = r.cutLabel
				}
			}
			if f {
				anyCrash = true
			}
			if f || !n.Alive {
				if !r.start(i, "C11") {
					return
				}
			} else if err != nil && op.K == "produce" {
				_ = n.StopClean()
				if !r.start(i, "C11") {
					return
				}
			}
			o.States = append(o.States, fmt.Sprintf("%s q=%d mp=%d", n.AbstractState(), len(n.SeqLog.Released), n.Exec.MempoolLen()))
		}
		// drain: enough rounds for everything still queued or refused to get through
		rounds := 4 + len(s.Ops)
		idle := 0
		for j := 0; j < rounds && idle < 3; j++ {
			time.Sleep(time.Second)
			if maxPending > 0 {
				r.exec(sim.Op{K: "subh", A: 0}, -1)
				r.exec(sim.Op{K: "subd", A: 0}, -1)
			}
			hb := n.Height()
			relBefore := len(n.SeqLog.Released)
			r.exec(sim.Op{K: "reap"}, -1)
			_, err := r.exec(sim.Op{K: "produce"}, -1)
			if err != nil {
				_ = n.StopClean()
				if !r.start(len(s.Ops)+j, "C11") {
					return
				}
			}
			if n.Height() == hb {
				o.Fail("C11/production-stalled-during-drain", "", len(s.Ops)+j, fmt.Sprintf("no block at drain round %d (err=%v)", j, err), "a block per round")
				return
			}
			if len(n.SeqLog.Released) == relBefore {
				idle++
			} else {
				idle = 0
			}
		}
		// collect the chain
		ctx := context.Background()
		st := n.Peek()
		h := n.Height()
		inChain := map[string]int{}
		var blocks [][][]byte
		for x := uint64(1); x <= h; x++ {
			_, d, err := st.GetBlockData(ctx, x)
			if err != nil {
				o.Fail("C11/chain-unreadable", "", len(s.Ops), fmt.Sprintf("height %d: %v", x, err), "readable chain")
				return
			}
			if len(d.Txs) > 0 {
				var b [][]byte
				for _, tx := range d.Txs {
					inChain[string(tx)]++
					b = append(b, tx)
				}
				blocks = append(blocks, b)
			}
		}
		// 1. nothing taken is lost
		seen := map[string]bool{}
		for _, tx := range n.Exec.TakenTxs() {
			if seen[string(tx)] {
				continue
			}
			seen[string(tx)] = true
			if inChain[string(tx)] == 0 {
				sig := "C11/tx-lost"
				if fired {
					sig += "/cut=" + cut
				} else if anyCrash {
					sig += "/after-kill"
				} else {
					sig += "/no-crash"
				}
				o.Fail("C11/tx-lost", sig, len(s.Ops), fmt.Sprintf("[crash point %d, cut %s] transaction %q was taken from the mempool but is in no committed block after the drain (height %d)", k, cut, tx, h),
					"every transaction taken from the mempool appears in a committed block")
				return
			}
		}
		// 2. non-empty blocks follow the release order of the sequencing layer
		ri := 0
		for bi, b := range blocks {
			found := false
			for ri < len(n.SeqLog.Released) {
				if sameTxs(n.SeqLog.Released[ri], b) {
					found = true
					ri++
					break
				}
				ri++
			}
			if !found {
				o.Fail("C11/block-order-differs-from-release-order", "", len(s.Ops), fmt.Sprintf("[crash point %d] non-empty block #%d does not match the next released batch (released %d batches)", k, bi, len(n.SeqLog.Released)),
					"batches are included in the order the sequencing layer released them")
				return
			}
		}
		// 3. without crashes: no transaction included more often than injected
		if !anyCrash {
			inj := map[string]int{}
			for _, tx := range r.Injected {
				inj[string(tx)]++
			}
			for tx, c := range inChain {
				if c > inj[tx] {
					o.Fail("C11/tx-included-twice-without-crash", "", len(s.Ops), fmt.Sprintf("transaction %q injected %d time(s) but included %d times", tx, inj[tx], c), "no duplicate inclusion in the absence of crashes")
					return
				}
			}
		}
		o.Count("refused-handoffs", n.SeqLog.Refused)
		o.Count("batches-released", len(n.SeqLog.Released))
		o.SimTime += time.Since(start)
	})
	if p != nil {
		o.Fail("C11/panic", "", -1, fmt.Sprintf("[crash point %d] %v", k, p), "no panic")
	}
	return fired
}

func sameTxs(a, b [][]byte) bool {
	if len(a) != len(b) {
		return false
	}
	for i := range a {
		if string(a[i]) != string(b[i]) {
			return false
		}
	}
	return true
}

func c11Run(t *testing.T, s *sim.Scn) *sim.Outcome {
	o := sim.NewOutcome()
	marked := false
	for _, op := range s.Ops {
		if op.S == "*" {
			marked = true
		}
	}
	images := 0
	for k := 0; k < 64 && o.V == nil; k++ {
		kk := k
		if !marked {
			kk = -1
		}
		sub := sim.NewOutcome()
		fired := c11Once(t, s, kk, sub)
		o.Absorb(sub)
		images++
		if !fired {
			break
		}
		o.Count("crash-points-fired", 1)
	}
	o.Count("family-members-run", images)
	o.Logf("family members=%d violation=%v", images, o.V != nil)
	o.NonTrivial = o.Counters["batches-released"] >= 2 && (o.Counters["crash-points-fired"] >= 2 || o.Counters["refused-handoffs"] >= 1)
	return o
}

func c11Gen(r *rand.Rand, tier string) *sim.Scn {
	s := &sim.Scn{Cfg: map[string]int64{"queue": 1 + r.Int64N(8)}}
	if r.IntN(4) == 0 {
		s.Cfg["maxbytes"] = []int64{1, 12, 30}[r.IntN(3)]
	}
	if r.IntN(3) == 0 {
		s.Cfg["maxpending"] = []int64{1, 2, 3}[r.IntN(3)]
	}
	n := 4 + r.IntN(20)
	if tier == "thorough" {
		n = 4 + r.IntN(50)
	}
	pProduce := 20 + r.IntN(40) // low values make the queue fill up (refusals)
	var cands []int
	for i := 0; i < n; i++ {
		x := r.IntN(100)
		switch {
		case x < 30:
			s.Ops = append(s.Ops, sim.Op{K: "tx", A: r.Int64N(4), B: int64(r.IntN(5) / 4 * (1 + r.IntN(2)))})
		case x < 30+pProduce/2:
			s.Ops = append(s.Ops, sim.Op{K: "reap"})
			cands = append(cands, len(s.Ops)-1)
		case x < 30+pProduce:
			s.Ops = append(s.Ops, sim.Op{K: "sleep", A: 1000}, sim.Op{K: "produce", A: int64(r.IntN(8) / 7)})
			cands = append(cands, len(s.Ops)-1)
		case x < 96:
			s.Ops = append(s.Ops, sim.Op{K: "tx", A: r.Int64N(4)}, sim.Op{K: "reap"})
			cands = append(cands, len(s.Ops)-1)
		case x < 97 && s.Cfg["maxpending"] > 0:
			// only one of the two submission loops gets its turn: headers and data fall behind differently
			s.Ops = append(s.Ops, sim.Op{K: []string{"subh", "subh", "subd"}[r.IntN(3)], A: 0})
		case x < 98:
			s.Ops = append(s.Ops, sim.Op{K: "stop"})
		default:
			s.Ops = append(s.Ops, sim.Op{K: "kill"})
		}
	}
	if len(cands) > 0 {
		s.Ops[cands[r.IntN(len(cands))]].S = "*"
	}
	return s
}

func TestC11(t *testing.T) {
	sim.Main(t, &sim.Check{
		ID:    "C11",
		Level: "fault_enumeration",
		Rule: "a case is a family: seeded history (tx arrivals incl. repeats of the same bytes, reap, produce, clean restart, kill; queue bound 1..8 so that hand-offs are refused) with one marked reap or production step whose every durable-write boundary is enumerated as crash point (each member run from scratch), followed by a drain; " +
			"distinct = distinct family hash; non-trivial = at least 2 batches released and (at least 2 crash points fired or at least one refused hand-off)",
		Assumptions: []string{"mempool = execution double whose GetTxs does not drain (interface contract); executed transactions leave it", "crash model: process death, completed writes survive in order"},
		Components:  map[string]string{"block.Reaper": "real", "block.Manager": "real", "sequencers/single": "real", "pkg/store": "real", "datastore": "stub (SimDatastore)", "executor/mempool": "stub (SimExec)"},
		Gen:         c11Gen,
		Run:         c11Run,
		// reproduces the two known findings on every run (crash between taking a batch and the first block save)
		Directed:    []*sim.Scn{{Cfg: map[string]int64{"queue": 4}, Ops: []sim.Op{{K: "tx"}, {K: "reap"}, {K: "sleep", A: 1000}, {K: "produce"}, {K: "sleep", A: 1000}, {K: "produce", S: "*"}}}},
		CfgMin:      map[string]int64{"queue": 1},
		QuickBudget: 30 * time.Second, ThoroughBudget: 12 * time.Minute,
	})
}
