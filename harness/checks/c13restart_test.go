package checks

import (
	"bytes"
	"context"
	"encoding/binary"
	"fmt"
	"math/rand/v2"
	"os"
	"runtime"
	"strconv"
	"strings"
	"sync"
	"time"

	"testing"
	"testing/synctest"

	ds "github.com/ipfs/go-datastore"
	logging "github.com/ipfs/go-log/v2"
	"github.com/libp2p/go-libp2p/core/host"
	"github.com/libp2p/go-libp2p/core/network"
	"github.com/libp2p/go-libp2p/core/peer"
	"github.com/libp2p/go-libp2p/core/protocol"
	mocknet "github.com/libp2p/go-libp2p/p2p/net/mock"
	"github.com/multiformats/go-multiaddr"

	"github.com/evstack/ev-node/node"
	"github.com/evstack/ev-node/pkg/config"
	genesispkg "github.com/evstack/ev-node/pkg/genesis"
	"github.com/evstack/ev-node/pkg/p2p"
	"github.com/evstack/ev-node/pkg/p2p/key"
	"github.com/evstack/ev-node/pkg/signer"
	storepkg "github.com/evstack/ev-node/pkg/store"
	"github.com/evstack/ev-node/sequencers/single"

	"verif/harness/sim"
)

// Whole-node configuration of C13 with restarts and partitions (cfg restart=1): an aggregator and 1-2 full
// nodes as real node.FullNode objects over a libp2p mocknet under the fake clock. The scenario is a
// timeline of operations - run for a while, stop a node cleanly (its Run must return), kill a node (its
// incarnation's disk/DA/execution seams go dead first), start a stopped node again on its durable image
// (new node object, new P2P host with the same identity), cut a node's P2P links, heal them, inject
// transactions - followed by a fault-free final phase in which every node runs, all links are up and the
// DA layer is healthy.
//
// Oracles: every stop returns within the node's shutdown budget (C13); post-mortem C01/C06/C07 on the
// aggregator, C02 prefix equality and finalize order on every full node; and bounded liveness once faults
// stop: at the end of the final phase every full node has reached the height the aggregator had when the
// final phase began (all of those blocks reach the DA layer and are scanned within the phase).

type rnode struct {
	name         string
	idx          int
	agg          bool
	sn           *sim.Node
	nk           *key.NodeKey
	addr         multiaddr.Multiaddr
	pid          peer.ID
	n            node.Node
	cancel       context.CancelFunc
	done         chan struct{}
	err          error
	up           bool
	cut          bool
	starts       int
	light        bool
	mh           host.Host           // the incarnation's libp2p host: closed when the incarnation ends, as a process exit would
	genesis      *genesispkg.Genesis // nil: the world's genesis
	signer       signer.Signer       // nil: the world's proposer key (aggregators only)
	extraPeers   string              // further configured P2P peers
	startedAt    time.Time
	runGid       uint64 // the goroutine in which the incarnation's Run executes (it starts the P2P stores' writer loops)
	lastIncluded uint64
	started      bool // the incarnation completed its start-up (it is seen running 2 s after its start)
	wantUp       bool // the operator wants this node running: a refused start is retried at the next timeline step
}

type rworld struct {
	t           *testing.T
	w           *sim.World
	mn          mocknet.Mocknet
	s           *sim.Scn
	o           *sim.Outcome
	nodes       []*rnode
	bt, dat     time.Duration
	aggAddr     string
	streamDelay time.Duration
}

// slowHost delays the opening of every outgoing stream by d of simulated time. The delay is spent before any
// lock of the stream machinery is taken (mocknet's own link latency is spent inside go-multistream's lazy
// handshake, under a sync.Once, where a second goroutine waiting for the Once is not durably blocked and the
// bubble's clock can never advance).
type slowHost struct {
	host.Host
	d time.Duration
}

func (h *slowHost) NewStream(ctx context.Context, p peer.ID, pids ...protocol.ID) (network.Stream, error) {
	if h.d > 0 && calledFromRequestSession() {
		if err := simNetDelay(ctx, h.d); err != nil {
			return nil, err
		}
	}
	return h.Host.NewStream(ctx, p, pids...)
}

// calledFromRequestSession reports whether the stream is opened by one of go-header's range-request sessions.
// Those retry a refused request at once and for ever (on a zero-latency network the fake clock would never
// advance) and hold no lock while they do; every other stream is opened without delay, in particular the
// single requests go-header makes while it validates a gossiped header under its incoming-head mutex -
// simulated time spent there stalls the bubble as soon as a second gossip message arrives.
func calledFromRequestSession() bool {
	pc := make([]uintptr, 24)
	n := runtime.Callers(3, pc)
	fr := runtime.CallersFrames(pc[:n])
	for {
		f, more := fr.Next()
		if strings.Contains(f.Function, "go-header/p2p.(*session") {
			return true
		}
		if !more {
			return false
		}
	}
}

// simNetDelay is the one place where simulated network time is spent (its name is looked for in goroutine
// dumps of stalled bubbles).
func simNetDelay(ctx context.Context, d time.Duration) error {
	select {
	case <-time.After(d):
		return nil
	case <-ctx.Done():
		return ctx.Err()
	}
}

func (rw *rworld) link(a, b *rnode) {
	if a.cut || b.cut || !a.up || !b.up {
		return
	}
	_ = rw.mn.UnlinkPeers(a.pid, b.pid)
	if _, err := rw.mn.LinkPeers(a.pid, b.pid); err != nil {
		panic(err)
	}
}

// start creates a fresh node object for rn on its durable image and runs it.
func (rw *rworld) start(rn *rnode) {
	if rn.up {
		return
	}
	mh, err := rw.mn.AddPeer(rn.nk.PrivKey, rn.addr)
	if err != nil {
		panic(err)
	}
	rn.mh = mh
	var h host.Host = &slowHost{Host: mh, d: rw.streamDelay}
	sn := rn.sn
	cfg := config.DefaultConfig
	cfg.RootDir = sn.Root
	cfg.ChainID = rw.w.Genesis.ChainID
	gen := rw.w.Genesis
	if rn.genesis != nil {
		gen = *rn.genesis
	}
	cfg.Node.Aggregator = rn.agg
	cfg.Node.Light = rn.light
	cfg.Node.BlockTime = config.DurationWrapper{Duration: rw.bt}
	cfg.Node.LazyMode = rn.agg && rw.s.Cfg["lazy"] == 1
	cfg.Node.LazyBlockInterval = config.DurationWrapper{Duration: 5 * rw.bt}
	cfg.Node.MaxPendingHeadersAndData = uint64(rw.s.Cfg["maxpending"])
	cfg.DA.BlockTime = config.DurationWrapper{Duration: rw.dat}
	cfg.DA.MempoolTTL = 1
	cfg.RPC.Address = "invalid-address:99999999"
	cfg.Instrumentation = nil
	if !rn.agg {
		cfg.P2P.Peers = rw.aggAddr
	}
	if rn.extraPeers != "" {
		if cfg.P2P.Peers != "" {
			cfg.P2P.Peers += ","
		}
		cfg.P2P.Peers += rn.extraPeers
	}
	logger := logging.Logger("verif")
	var db ds.Batching = sn.Disk.Open()
	pc, err := p2p.NewClientWithHost(cfg, rn.nk, db, logger, p2p.NopMetrics(), h)
	if err != nil {
		panic(err)
	}
	da := rw.w.DA.For(rn.name, sn.Fence)
	m, _ := single.NopMetrics()
	seq, err := single.NewSequencer(context.Background(), logger, db, da, []byte(rw.w.Genesis.ChainID), rw.bt, m, rn.agg)
	if err != nil {
		panic(err)
	}
	sg := rw.w.Signer
	if rn.signer != nil {
		sg = rn.signer
	}
	if !rn.agg {
		sg = nil
	}
	n, err := node.NewNode(context.Background(), cfg, sn.Exec.For(sn.Fence), seq, da, sg, pc, gen, db, node.DefaultMetricsProvider(config.DefaultInstrumentationConfig()), logger, node.NodeOptions{})
	if err != nil {
		rw.o.Fail("C13/node-cannot-start-again", "C13/node-cannot-start-again/"+rn.name, -1, fmt.Sprintf("start %d of %s on its durable image: NewNode: %v", rn.starts+1, rn.name, err), "a node that was stopped starts again")
		return
	}
	rn.n = n
	rn.up = true
	rn.started = false
	rn.startedAt = time.Now()
	rn.starts++
	for _, other := range rw.nodes {
		if other != rn {
			rw.link(rn, other)
			// cfg eager=1: peers that are up dial the new host at once, so the node has connected peers when its
			// sync services start (otherwise they find it whenever their own dialing gets round to it)
			if rw.s.Cfg["eager"] == 1 && other.up && !rn.cut && !other.cut {
				_, _ = rw.mn.ConnectPeers(other.pid, rn.pid)
			}
		}
	}
	ctx, cancel := context.WithCancel(context.Background())
	rn.cancel = cancel
	rn.done = make(chan struct{})
	sn.Fence.OnCrash(cancel)
	gidCh := make(chan uint64, 1)
	go func(done chan struct{}) {
		defer close(done)
		gidCh <- goid()
		rn.err = n.Run(ctx)
	}(rn.done)
	rn.runGid = <-gidCh
}

// stop ends rn's incarnation: kill=false cancels its context (clean stop), kill=true first makes the
// incarnation's seams dead (process death). It reports false when Run does not return.
func (rw *rworld) stop(rn *rnode, kill bool, step int) bool {
	if !rn.up {
		return true
	}
	t0 := time.Now()
	var files dirImage
	if kill {
		// process death: nothing the dying incarnation does from now on reaches the disk - neither the
		// database (fenced) nor the cache files it would write while shutting down (restored below)
		files = readImage(rn.sn.Root)
		rn.sn.Fence.Kill()
	}
	rn.cancel()
	select {
	case <-rn.done:
	case <-time.After(30 * time.Minute):
		sim.EmergencyReport("C13", rw.s, &sim.Violation{Oracle: "C13/node-never-shuts-down", Sig: "C13/node-never-shuts-down/" + rn.name + "/restart-timeline", Step: step,
			Observed: fmt.Sprintf("timeline step %d: %s (start %d) asked to stop: Run has not returned 30 minutes of simulated time later", step, rn.name, rn.starts), Expected: "the node shuts down without hanging"})
		return false
	}
	rn.up = false
	rn.closeHost()
	if kill {
		restoreDir(rn.sn.Root, files)
	}
	if !kill {
		// a clean stop ends the writer loops of the two P2P stores this incarnation started (they are the node's
		// activities, not the library's; a Run that gave up during start-up is not judged: the process exits)
		synctest.Wait()
		if left := storeWritersStartedBy(rn.runGid); left > 0 && rn.started {
			rw.o.Fail("C13/activity-outlives-the-node", "C13/activity-outlives-the-node/"+rn.name, step,
				fmt.Sprintf("timeline step %d: %s (start %d) was stopped cleanly and Run returned, but %d of the P2P store writer loops it started are still running (the stores were not stopped, what they held in memory was not written)", step, rn.name, rn.starts, left),
				"when the node is asked to stop every activity returns")
			return false
		}
	}
	if !rw.checkIncluded(rn, step) {
		return false
	}
	if !kill {
		rn.sn.Fence.Kill() // nothing of the stopped incarnation may touch the durable image any more
		if d := time.Since(t0); d > 12*time.Second {
			rw.o.Fail("C13/node-does-not-shut-down-promptly", "C13/node-does-not-shut-down-promptly/"+rn.name+"/restart-timeline", step,
				fmt.Sprintf("timeline step %d: %s (start %d) asked to stop: Run returned %v of simulated time later", step, rn.name, rn.starts, d), "the node shuts down within its own 9 s service budget plus prompt workers")
			return false
		}
	}
	return true
}

// goid returns the id of the calling goroutine.
func goid() uint64 {
	b := make([]byte, 64)
	b = b[:runtime.Stack(b, false)]
	f := bytes.Fields(b)
	if len(f) < 2 {
		return 0
	}
	g, _ := strconv.ParseUint(string(f[1]), 10, 64)
	return g
}

// storeWritersStartedBy counts the go-header store writer loops that were started from goroutine gid and still run.
func storeWritersStartedBy(gid uint64) int {
	buf := make([]byte, 1<<23)
	n := runtime.Stack(buf, true)
	want := fmt.Sprintf("go-header/store.(*Store[...]).Start in goroutine %d\n", gid)
	c := 0
	for _, blk := range strings.Split(string(buf[:n])+"\n", "\n\n") {
		if strings.Contains(blk, "go-header/store.(*Store[...]).flushLoop") && strings.Contains(blk+"\n", want) {
			c++
		}
	}
	return c
}

func (rn *rnode) closeHost() {
	if rn.mh != nil {
		_ = rn.mh.Close()
		rn.mh = nil
	}
}

// checkIncluded reads the DA-included height a stopped node has persisted: it never decreases from one
// incarnation to the next and never exceeds the node's chain height (C07, safety part).
func (rw *rworld) checkIncluded(rn *rnode, step int) bool {
	b, err := rn.sn.Peek().GetMetadata(context.Background(), storepkg.DAIncludedHeightKey)
	var inc uint64
	if err == nil && len(b) == 8 {
		inc = binary.LittleEndian.Uint64(b)
	}
	h := rn.sn.Height()
	if inc > h {
		rw.o.Fail("C13/invariant-C07-violated", "C13/invariant-C07-violated/da-included-beyond-chain/"+rn.name, step, fmt.Sprintf("timeline step %d: %s (start %d) persisted DA-included height %d but its chain height is %d", step, rn.name, rn.starts, inc, h), "the DA-included height never exceeds the chain height")
		return false
	}
	if inc < rn.lastIncluded {
		rw.o.Fail("C13/invariant-C07-violated", "C13/invariant-C07-violated/da-included-decreased/"+rn.name, step, fmt.Sprintf("timeline step %d: %s (start %d) persisted DA-included height %d, the previous incarnation had persisted %d", step, rn.name, rn.starts, inc, rn.lastIncluded), "the DA-included height never decreases, also across restarts")
		return false
	}
	rn.lastIncluded = inc
	return true
}

// reap notices nodes whose Run returned on its own. A node that could not start because no peer could serve
// the genesis header yet ("error while starting ... sync service") is simply down - that is how the node is
// meant to behave, the operator starts it again; any other self-stop is a node that gave up.
func (rw *rworld) reap(step int, what string) bool {
	for _, x := range rw.nodes {
		if !x.up {
			continue
		}
		select {
		case <-x.done:
			x.started = false
			x.up = false
			x.closeHost() // Run returned (e.g. a refused start): the process is gone, and its connections with it
			x.sn.Fence.Kill()
			if !rw.checkIncluded(x, step) {
				return false
			}
			if x.err != nil && strings.Contains(x.err.Error(), "error while starting") {
				rw.o.Count("timeline:start-refused-(no-peer-has-the-genesis-yet)", 1)
				continue
			}
			rw.o.Fail("C13/node-stopped-on-its-own", "C13/node-stopped-on-its-own/"+x.name, step, fmt.Sprintf("timeline step %d (%s): %s.Run returned without being asked to stop: %v", step, what, x.name, x.err), "a node keeps running until it is asked to stop")
			return false
		default:
			if time.Since(x.startedAt) > 2*time.Second {
				x.started = true
			}
		}
	}
	return true
}

func c13RestartBody(t *testing.T, s *sim.Scn, o *sim.Outcome) {
	start := time.Now()
	rw := &rworld{t: t, s: s, o: o}
	rw.bt = time.Duration(max64(100, s.Cfg["bt"])) * time.Millisecond
	rw.dat = time.Duration(max64(500, s.Cfg["dat"])) * time.Millisecond
	rw.w = sim.NewWorld(t, "c13r", 1)
	defer rw.w.Close()
	rw.mn = mocknet.New()
	defer rw.mn.Close()
	// opening a stream takes time (see slowHost): go-header's request sessions retry a refused request at once,
	// which on a zero-latency network never lets the fake clock advance
	rw.streamDelay = time.Duration(20+s.Cfg["linkms"]%40) * time.Millisecond
	nfull := 1 + int(s.Cfg["nfull"]%2)
	nlight := int(s.Cfg["light"] % 2)
	for i := 0; i <= nfull+nlight; i++ {
		name := "seq"
		if i > 0 {
			name = fmt.Sprintf("full%d", i)
		}
		if i > nfull {
			name = "light1"
		}
		priv := sim.KeyFromSeed("nodekey-" + name)
		addr, _ := multiaddr.NewMultiaddr(fmt.Sprintf("/ip4/10.0.0.%d/tcp/7676", i+1))
		pid, _ := peer.IDFromPublicKey(priv.GetPublic())
		rn := &rnode{name: name, idx: i, agg: i == 0, light: i > nfull, nk: &key.NodeKey{PrivKey: priv, PubKey: priv.GetPublic()}, addr: addr, pid: pid}
		rn.sn = rw.w.AddNode(sim.NodeCfg{Name: name, Aggregator: i == 0, BlockTime: rw.bt, DABlockTime: rw.dat})
		rw.nodes = append(rw.nodes, rn)
		if i == 0 {
			rw.aggAddr = fmt.Sprintf("%s/p2p/%s", addr, pid)
		}
	}
	rw.applyJitter()
	if rl := s.Cfg["readlat"]; rl > 0 {
		// point reads of the block store (not of the go-header stores, which are read under go-header's locks)
		// take simulated time
		for _, rn := range rw.nodes {
			rn.sn.Disk.ReadDelay = func(key string) {
				switch sim.LabelKey(key) {
				case "header", "data", "sig", "index", "state", "height":
					time.Sleep(time.Duration(rl) * time.Millisecond)
				}
			}
		}
		o.Count("fault:block-store-read-latency", 1)
	}
	agg := rw.nodes[0]
	fulls := rw.nodes[1 : 1+nfull]
	rw.w.DA.Latency = time.Duration(s.Cfg["dalat"]) * time.Millisecond
	rw.w.DA.DeafSubmit = s.Cfg["deafda"] == 1
	ledger := sim.NewLedger(rw.w, agg.sn)
	envDone := make(chan struct{})
	var envWG sync.WaitGroup
	envWG.Add(1)
	go func() {
		defer envWG.Done()
		tk := time.NewTicker(rw.dat)
		defer tk.Stop()
		for {
			select {
			case <-envDone:
				return
			case <-tk.C:
				rw.w.DA.Advance(1)
			}
		}
	}()
	defer func() {
		close(envDone)
		envWG.Wait()
	}()
	txn := 0
	inject := func(k int) {
		for j := 0; j < k; j++ {
			txn++
			agg.sn.Exec.InjectTx([]byte(fmt.Sprintf("k%d=v%d", txn, txn)))
		}
	}
	stopAll := func(step int) bool {
		for _, rn := range rw.nodes {
			if !rw.stop(rn, false, step) {
				return false
			}
		}
		return true
	}
	for _, rn := range rw.nodes {
		rn.wantUp = true
		rw.start(rn)
		if o.V != nil {
			stopAll(-1)
			return
		}
		time.Sleep(300 * time.Millisecond)
	}
	for i, op := range s.Ops {
		rn := rw.nodes[int(op.A)%len(rw.nodes)]
		switch op.K {
		case "run":
			time.Sleep(time.Duration(100+op.A%20000) * time.Millisecond)
		case "tx":
			inject(1 + int(op.B%3))
		case "stop", "kill":
			if rn == agg && op.K == "kill" {
				o.Count("timeline:seq-killed-or-cut", 1)
				o.Count("timeline:seq-killed", 1)
			}
			rn.wantUp = false
			if !rw.stop(rn, op.K == "kill", i) {
				if o.V != nil {
					stopAll(i)
				}
				return
			}
			o.Count("timeline:"+op.K, 1)
		case "start":
			rn.wantUp = true
			rw.start(rn)
			if o.V != nil {
				stopAll(i)
				return
			}
			o.Count("timeline:start", 1)
		case "cut":
			// the node's P2P links go down (DA stays reachable)
			if rn.up && !rn.cut {
				if rn == agg {
					o.Count("timeline:seq-killed-or-cut", 1)
				}
				rn.cut = true
				for _, other := range rw.nodes {
					if other != rn {
						_ = rw.mn.DisconnectPeers(rn.pid, other.pid)
						_ = rw.mn.UnlinkPeers(rn.pid, other.pid)
					}
				}
				o.Count("timeline:cut", 1)
			}
		case "heal":
			for _, x := range rw.nodes {
				x.cut = false
			}
			for a := 0; a < len(rw.nodes); a++ {
				for b := a + 1; b < len(rw.nodes); b++ {
					rw.link(rw.nodes[a], rw.nodes[b])
				}
			}
		case "hang":
			// the sequencer node's mempool query hangs (honouring its context) until the next "hang"
			if op.A%2 == 0 {
				agg.sn.Exec.StallGetTxs()
				o.Count("timeline:mempool-query-hangs", 1)
			} else {
				agg.sn.Exec.ReleaseGetTxs()
			}
		case "da":
			rw.w.DA.SubmitScript = append(rw.w.DA.SubmitScript, sim.SubmitOutcome{Kind: sim.SubmitKind(op.A % 10), N: int(op.B)})
		}
		if !rw.reap(i, op.String()) {
			stopAll(i)
			return
		}
		for _, x := range rw.nodes {
			if x.wantUp && !x.up {
				rw.start(x) // a start that was refused (no peer could serve the genesis header) is tried again
				if o.V != nil {
					stopAll(i)
					return
				}
			}
		}
		o.Logf("%d %s agg=%d", i, op, agg.sn.Height())
	}
	// fault-free final phase
	agg.sn.Exec.ReleaseGetTxs()
	rw.w.DA.SubmitScript = nil
	for _, x := range rw.nodes {
		x.cut = false
	}
	for attempt := 0; attempt < 10; attempt++ {
		// the operator starts whatever is down (a full node refuses to start until a peer can serve the genesis header)
		allUp := true
		for _, x := range rw.nodes {
			rw.start(x)
			if o.V != nil {
				stopAll(len(s.Ops))
				return
			}
		}
		for a := 0; a < len(rw.nodes); a++ {
			for b := a + 1; b < len(rw.nodes); b++ {
				rw.link(rw.nodes[a], rw.nodes[b])
			}
		}
		time.Sleep(3 * time.Second)
		if !rw.reap(len(s.Ops), "final phase start-up") {
			stopAll(len(s.Ops))
			return
		}
		for _, x := range rw.nodes {
			if !x.up {
				allUp = false
			}
		}
		if allUp {
			break
		}
	}
	for _, x := range rw.nodes {
		if !x.up {
			o.Fail("C13/node-cannot-start-again", "C13/node-cannot-start-again/"+x.name+"/final-phase", len(s.Ops), fmt.Sprintf("%s refused to start 10 times in 30 s although the proposer is up and reachable: %v", x.name, x.err), "a node that was stopped starts again")
			stopAll(len(s.Ops))
			return
		}
	}
	time.Sleep(2 * rw.bt)
	target := agg.sn.Height()
	final := 40*rw.dat + 60*time.Second
	// cfg p2ponly=1 (and the sequencer node was never killed or cut, so its P2P stores hold the whole chain):
	// during the final phase the full nodes cannot read the DA layer at all - everything has to reach them over P2P
	p2pOnly := s.Cfg["p2ponly"] == 1 && o.Counters["timeline:seq-killed-or-cut"] == 0
	connected := map[string]bool{}
	if p2pOnly {
		rw.w.DA.ReadOutage = true
		o.Count("timeline:p2p-only-final-phase", 1)
		for _, x := range fulls {
			// a full node that has a live connection to the sequencer now (and keeps running) gets everything over P2P
			if x.up && agg.up && x.mh != nil && len(x.mh.Network().ConnsToPeer(agg.pid)) > 0 {
				connected[x.name] = true
				o.Count("timeline:p2p-only-final-phase/connected-full-node", 1)
			}
		}
	}
	time.Sleep(final)
	// what has reached the full nodes' P2P stores by now must be applied a little later
	type p2pSeen struct{ h, d uint64 }
	seenP2P := map[string]p2pSeen{}
	if p2pOnly {
		for _, x := range fulls {
			if fn, ok := x.n.(interface{ VerifP2PStoreHeights() (uint64, uint64) }); ok && x.up {
				h, d := fn.VerifP2PStoreHeights()
				seenP2P[x.name] = p2pSeen{h, d}
			}
		}
		time.Sleep(10*rw.bt + 2*time.Second)
	}
	if f := os.Getenv("VERIF_DUMP_STACK"); f != "" {
		buf := make([]byte, 1<<24)
		_ = os.WriteFile(f, buf[:runtime.Stack(buf, true)], 0o644)
	}
	rw.w.DA.ReadOutage = false
	reached := map[string]uint64{}
	for _, x := range fulls {
		reached[x.name] = x.sn.Height()
	}
	if !rw.reap(len(s.Ops), "final phase") {
		stopAll(len(s.Ops))
		return
	}
	for _, x := range rw.nodes {
		if !x.up {
			o.Fail("C13/node-stopped-on-its-own", "C13/node-stopped-on-its-own/"+x.name, len(s.Ops), fmt.Sprintf("final phase: %s is down: %v", x.name, x.err), "a node keeps running until it is asked to stop")
			stopAll(len(s.Ops))
			return
		}
	}
	if !stopAll(len(s.Ops)) {
		return
	}
	o.SimTime = time.Since(start)
	if o.V != nil {
		return
	}
	ah := agg.sn.Height()
	if ah >= 1 {
		if msg, _ := rw.w.VerifyChain(agg.sn.Peek(), 1, ah, nil); msg != "" {
			o.Fail("C13/invariant-C01-violated", "", -1, "whole node with restarts: "+msg, "valid chain on every interleaving")
			return
		}
	}
	if msg := ledger.CheckSubmissions(); msg != "" {
		o.Fail("C13/invariant-C06-violated", "", -1, "whole node with restarts: "+msg, "sound submissions on every interleaving")
		return
	}
	if msg := sim.CheckFinalizeOrder(agg.sn.Exec); msg != "" {
		o.Fail("C13/invariant-C07-violated", "", -1, "whole node with restarts, sequencer: "+msg, "finalize in order (a repeat only by a later incarnation)")
		return
	}
	bg := context.Background()
	// a header-only node: whatever its P2P header store holds after all the stops, kills and cuts is the proposer's
	for _, v := range rw.nodes[1+nfull:] {
		st, err := p2pHeaderStore(v)
		if err != nil {
			panic(err)
		}
		head, err := st.Head(bg)
		if err != nil {
			o.Count("light-node:p2p-header-store-empty", 1)
			continue
		}
		o.Count("light-node:p2p-header-store-height", int(head.Height()))
		for x := uint64(1); x <= head.Height(); x++ {
			hd, err := st.GetByHeight(bg, x)
			if err != nil {
				continue
			}
			a, _, e1 := agg.sn.Peek().GetBlockData(bg, x)
			if e1 != nil || !bytes.Equal(a.Hash(), hd.Hash()) {
				o.Fail("C13/invariant-C02-violated", "C13/invariant-C02-violated/light-node-header-store", -1, fmt.Sprintf("%s holds at height %d a header that is not the proposer's (%v)", v.name, x, e1), "the proposer's headers")
				return
			}
		}
	}
	for _, f := range fulls {
		p2pH, p2pD := uint64(0), p2pDataStoreHeight(f)
		if st, err := p2pHeaderStore(f); err == nil {
			if head, err := st.Head(bg); err == nil {
				p2pH = head.Height()
			}
		}
		o.Count("full-node:p2p-header-store-height", int(p2pH))
		o.Logf("%s: chain height %d (%d at the end of the final phase), P2P header store %d, P2P data store %d, proposer %d", f.name, f.sn.Height(), reached[f.name], p2pH, p2pD, ah)
		if p2pOnly {
			// C02 over the real P2P path: whatever reached the node's P2P stores by the end of the phase (less the last
			// few blocks, which may still be in flight) has been applied - the DA layer could not be read
			got := seenP2P[f.name].h
			if d := seenP2P[f.name].d; d < got {
				got = d
			}
			tol := uint64(2)
			if got > tol && reached[f.name]+tol < got {
				o.Fail("C13/invariant-C02-violated", "C13/invariant-C02-violated/received-over-p2p-but-not-applied/"+f.name, -1,
					fmt.Sprintf("%s had received headers up to %d and data up to %d over P2P (heights of its P2P stores) while it could not read the DA layer; 10 block times + 2 s later its chain is at %d", f.name, seenP2P[f.name].h, seenP2P[f.name].d, reached[f.name]),
					"a full node applies the blocks whose header and data it has received, over whichever channel")
				return
			}
		}
		fh := f.sn.Height()
		for x := uint64(1); x <= fh; x++ {
			a, _, e1 := agg.sn.Peek().GetBlockData(bg, x)
			b, _, e2 := f.sn.Peek().GetBlockData(bg, x)
			if e1 != nil || e2 != nil || !bytes.Equal(a.Hash(), b.Hash()) {
				o.Fail("C13/invariant-C02-violated", "", -1, fmt.Sprintf("whole node %s at height %d: block %d differs from the proposer's or is missing (%v/%v)", f.name, fh, x, e1, e2), "prefix of the proposer's chain")
				return
			}
		}
		if msg := sim.CheckFinalizeOrder(f.sn.Exec); msg != "" {
			o.Fail("C13/invariant-C07-violated", "", -1, "whole node with restarts, "+f.name+": "+msg, "finalize in order (a repeat only by a later incarnation)")
			return
		}
		// C07, liveness on a full node: every block up to `target` whose header and data the DA layer accepted before the
		// final phase was half over has been scanned, applied and - 20 DA block times later - included
		onDA := uint64(0)
		for x := uint64(1); x <= target; x++ {
			_, hok := ledger.AccH[x]
			dok := true
			if empty, err := ledger.BlockEmpty(x); err == nil && !empty {
				_, dok = ledger.AccD[x]
			}
			if !hok || !dok {
				break
			}
			onDA = x
		}
		if inc := f.lastIncluded; inc < onDA && reached[f.name] >= onDA && !p2pOnly { // (a node that cannot read the DA layer cannot observe inclusion)
			o.Fail("C13/invariant-C07-violated", "C13/invariant-C07-violated/da-included-not-reached/"+f.name, -1,
				fmt.Sprintf("%s (started %d times) applied blocks up to %d and both parts of every block up to %d are on the DA layer, but after a fault-free final phase of %v its DA-included height is %d", f.name, f.starts, reached[f.name], onDA, final, inc),
				"once both parts of every block up to h are on the DA layer the node eventually reports h, including after a restart")
			return
		}
		// (over P2P alone convergence is not demanded: whether gossip reaches a node again after either side restarted
		// is P2P availability, which is not among the properties - and on the mocknet a reconnecting peer with the same
		// identity does not reliably get the other side's gossip stream back, which would make such a rule a false alarm)
		if reached[f.name] < target && !p2pOnly {
			o.Fail("C13/invariant-C02-violated", "C13/invariant-C02-violated/not-converged-after-faults-stop/"+f.name, -1,
				fmt.Sprintf("%s (started %d times) is at height %d after a fault-free final phase of %v with all nodes up, all links healed and a healthy DA layer; the proposer was at %d when the phase began (and is at %d now)", f.name, f.starts, reached[f.name], final, target, ah),
				"once faults stop the full node reaches the proposer's chain")
			return
		}
		o.Count("whole-node:blocks-synced", int(fh))
	}
	// C07, liveness on the sequencer node. Its marks live in memory and are saved by an orderly stop (a recorded
	// finding: they are lost when the process dies). A sequencer that was never killed in this timeline has therefore
	// noted every acceptance the DA layer acknowledged to it: what was accepted and acknowledged before the final phase
	// must be reported as DA-included after it.
	if o.Counters["timeline:seq-killed"] == 0 {
		ackOn := uint64(0)
		for x := uint64(1); x <= target; x++ {
			hok := len(ledger.AccHEpochs[x]) > 0
			dok := true
			if empty, err := ledger.BlockEmpty(x); err == nil && !empty {
				dok = len(ledger.AccDEpochs[x]) > 0
			}
			if !hok || !dok {
				break
			}
			ackOn = x
		}
		if agg.lastIncluded < ackOn {
			o.Fail("C13/invariant-C07-violated", "C13/invariant-C07-violated/da-included-not-reached/seq", -1,
				fmt.Sprintf("the sequencer node (started %d times, never killed) has both parts of every block up to %d accepted by the DA layer and acknowledged, but after a fault-free final phase of %v its DA-included height is %d", agg.starts, ackOn, final, agg.lastIncluded),
				"once both parts of every block up to h are on the DA layer the node eventually reports h, including after a restart")
			return
		}
		o.Count("whole-node:sequencer-inclusion-judged", 1)
	}
	o.Count("whole-node:blocks-produced", int(ah))
	o.Count("whole-node-restart-timelines", 1)
	o.NonTrivial = o.Counters["timeline:start"] > 0 || o.Counters["timeline:cut"] > 0
}

// applyJitter (cfg jitter > 0): a slow disk, without simulated time (which cannot be spent under the locks
// these paths hold): about one goroutine in three lets every other runnable goroutine go first `jitter` times
// at each of its datastore operations. Which of two goroutines that become runnable at the same instant gets
// where first is otherwise always the same.
func (rw *rworld) applyJitter() {
	j := rw.s.Cfg["jitter"]
	if j <= 0 {
		return
	}
	y := sim.SpinJitter(j, uint64(rw.s.Cfg["jsalt"]))
	for _, rn := range rw.nodes {
		rn.sn.Disk.Yield = y
		rn.sn.Exec.Yield = y
	}
	rw.w.DA.Yield = y
	rw.o.Count("fault:disk-scheduling-jitter", 1)
}

func c13RestartGen(r *rand.Rand, tier string) *sim.Scn {
	s := &sim.Scn{Cfg: map[string]int64{
		"restart": 1, "nfull": r.Int64N(2), "bt": []int64{250, 500, 1000}[r.IntN(3)], "dat": []int64{1000, 3000}[r.IntN(2)],
		"lazy": r.Int64N(2), "maxpending": []int64{0, 0, 3}[r.IntN(3)], "dalat": []int64{0, 5, 50}[r.IntN(3)], "linkms": []int64{0, 3, 18, 38}[r.IntN(4)], "eager": r.Int64N(2), "light": []int64{0, 0, 1}[r.IntN(3)], "p2ponly": r.Int64N(2),
		"jitter": []int64{0, 0, 40, 400, 4000}[r.IntN(5)], "jsalt": r.Int64N(1 << 30), "deafda": r.Int64N(2),
	}}
	n := 4 + r.IntN(10)
	for i := 0; i < n; i++ {
		switch x := r.IntN(100); {
		case x < 35:
			s.Ops = append(s.Ops, sim.Op{K: "run", A: r.Int64N(12000)})
		case x < 50:
			s.Ops = append(s.Ops, sim.Op{K: "tx", B: r.Int64N(3)})
		case x < 62:
			s.Ops = append(s.Ops, sim.Op{K: "stop", A: r.Int64N(4)})
		case x < 70:
			s.Ops = append(s.Ops, sim.Op{K: "kill", A: r.Int64N(4)})
		case x < 85:
			s.Ops = append(s.Ops, sim.Op{K: "start", A: r.Int64N(4)})
		case x < 91:
			s.Ops = append(s.Ops, sim.Op{K: "cut", A: r.Int64N(4)})
		case x < 96:
			s.Ops = append(s.Ops, sim.Op{K: "heal"})
		case x < 98:
			s.Ops = append(s.Ops, sim.Op{K: "hang", A: r.Int64N(2)})
		default:
			s.Ops = append(s.Ops, sim.Op{K: "da", A: r.Int64N(10), B: r.Int64N(3)})
		}
	}
	if tier != "thorough" && s.Cfg["jitter"] > 400 {
		s.Cfg["jitter"] = 400 // the slowest goroutines make a whole-node scenario take minutes: thorough tier only
	}
	if s.Cfg["deafda"] == 1 {
		// a DA layer that takes its time and answers whatever happened to the caller: stops land inside submissions
		s.Cfg["dalat"] = []int64{50, 300, 900}[r.IntN(3)]
	}
	return s
}

// restoreDir makes root hold exactly the files of img.
func restoreDir(root string, img dirImage) {
	_ = os.RemoveAll(root)
	_ = os.MkdirAll(root, 0o755)
	img.writeTo(root)
}
