package checks

import (
	"bytes"
	"context"
	"fmt"
	"math/rand/v2"
	"net"
	"strings"
	"sync"
	"testing"
	"time"

	logging "github.com/ipfs/go-log/v2"

	coreda "github.com/evstack/ev-node/core/da"
	"github.com/evstack/ev-node/da/jsonrpc"
	"github.com/evstack/ev-node/types"

	"verif/harness/sim"
)

// C16 — a DA layer behind the JSON-RPC proxy behaves like the same DA layer in-process.
//
// Two identically configured simulated DA layers: one is called directly, the other through the real
// jsonrpc server and client over loopback HTTP (no transport seam exists in NewClient, so this part is a
// real socket and runs outside the bubble; the compared behaviour is a function of the call sequence).
// Calls go through the node's helpers (SubmitWithHelpers / RetrieveWithHelpers); every DA error the
// interface defines is injected at the backing store; results are compared call by call.

// swapDA lets one long-lived server serve a different backing DA per scenario.
type swapDA struct {
	mu  sync.Mutex
	cur coreda.DA
}

func (s *swapDA) get() coreda.DA { s.mu.Lock(); defer s.mu.Unlock(); return s.cur }
func (s *swapDA) Get(ctx context.Context, ids []coreda.ID, ns []byte) ([]coreda.Blob, error) {
	return s.get().Get(ctx, ids, ns)
}
func (s *swapDA) GetIDs(ctx context.Context, h uint64, ns []byte) (*coreda.GetIDsResult, error) {
	return s.get().GetIDs(ctx, h, ns)
}
func (s *swapDA) GetProofs(ctx context.Context, ids []coreda.ID, ns []byte) ([]coreda.Proof, error) {
	return s.get().GetProofs(ctx, ids, ns)
}
func (s *swapDA) Commit(ctx context.Context, b []coreda.Blob, ns []byte) ([]coreda.Commitment, error) {
	return s.get().Commit(ctx, b, ns)
}
func (s *swapDA) Submit(ctx context.Context, b []coreda.Blob, g float64, ns []byte) ([]coreda.ID, error) {
	return s.get().Submit(ctx, b, g, ns)
}
func (s *swapDA) SubmitWithOptions(ctx context.Context, b []coreda.Blob, g float64, ns []byte, o []byte) ([]coreda.ID, error) {
	return s.get().SubmitWithOptions(ctx, b, g, ns, o)
}
func (s *swapDA) Validate(ctx context.Context, ids []coreda.ID, p []coreda.Proof, ns []byte) ([]bool, error) {
	return s.get().Validate(ctx, ids, p, ns)
}
func (s *swapDA) GasPrice(ctx context.Context) (float64, error) { return s.get().GasPrice(ctx) }
func (s *swapDA) GasMultiplier(ctx context.Context) (float64, error) {
	return s.get().GasMultiplier(ctx)
}

type c16Proxy struct {
	swap   *swapDA
	srv    *jsonrpc.Server
	client *jsonrpc.Client
}

var (
	c16Pool   = make(chan *c16Proxy, 64)
	c16PoolMu sync.Mutex
)

func c16Acquire() (*c16Proxy, error) {
	select {
	case p := <-c16Pool:
		return p, nil
	default:
	}
	c16PoolMu.Lock()
	defer c16PoolMu.Unlock()
	logger := logging.Logger("verif")
	for attempt := 0; attempt < 20; attempt++ {
		l, err := net.Listen("tcp", "127.0.0.1:0")
		if err != nil {
			return nil, err
		}
		port := l.Addr().(*net.TCPAddr).Port
		l.Close()
		sw := &swapDA{}
		srv := jsonrpc.NewServer(logger, "127.0.0.1", fmt.Sprint(port), sw)
		if err := srv.Start(context.Background()); err != nil {
			continue
		}
		cl, err := jsonrpc.NewClient(context.Background(), logger, fmt.Sprintf("http://127.0.0.1:%d", port), "", "")
		if err != nil {
			_ = srv.Stop(context.Background())
			return nil, err
		}
		return &c16Proxy{swap: sw, srv: srv, client: cl}, nil
	}
	return nil, fmt.Errorf("no free port")
}

func c16Release(p *c16Proxy) {
	select {
	case c16Pool <- p:
	default:
		p.client.Close()
		_ = p.srv.Stop(context.Background())
	}
}

func c16Blobs(op sim.Op, step int, limit uint64) [][]byte {
	n := int(op.A % 6)
	var out [][]byte
	for j := 0; j < n; j++ {
		size := []int{0, 1, 30, 59, 60, 61, 100, 200}[(int(op.B)+j*3)%8]
		if limit > 100000 {
			// the production limit: blobs of real size (requests of megabytes cross the wire base64-encoded)
			l := int(limit)
			size = []int{0, 1, l / 3, l - 1, l, l + 1, l / 2, 3 * l / 4}[(int(op.B)+j*3)%8]
			if n > 3 {
				n = 3
			}
		}
		b := bytes.Repeat([]byte{byte('a' + j)}, size)
		if size >= 8 {
			copy(b, fmt.Sprintf("%03d-%d:", step, j))
		}
		out = append(out, b)
	}
	return out
}

func c16Run(t *testing.T, s *sim.Scn) *sim.Outcome {
	o := sim.NewOutcome()
	sim.QuietLogs()
	logger := logging.Logger("verif")
	px, err := c16Acquire()
	if err != nil {
		panic(fmt.Sprintf("INFRA: cannot start JSON-RPC proxy: %v", err))
	}
	defer c16Release(px)
	limit := uint64(max64(60, s.Cfg["limit"]))
	mk := func() *sim.SimDA {
		d := sim.NewSimDA()
		d.MaxBlobBytes = limit
		d.EmptyStyle = int(s.Cfg["empty"] % 3)
		d.AutoAdvance = s.Cfg["auto"] == 1
		return d
	}
	d1, d2 := mk(), mk()
	direct := d1.For("node", nil)
	px.swap.mu.Lock()
	px.swap.cur = d2.For("node", nil)
	px.swap.mu.Unlock()
	px.client.DA.MaxBlobSize = limit
	proxied := &px.client.DA
	fail := func(step int, oracle, what, obs string) {
		o.Fail(oracle, "", step, what+": "+obs, "the proxied DA layer answers exactly like the direct one")
	}
	for i, op := range s.Ops {
		switch op.K {
		case "script":
			k := sim.SubmitKind(op.A % 12)
			switch {
			case k == sim.SubBlock:
				k = sim.SubTimeout
			case op.A%12 == 10:
				k = sim.SubCanceled
			case op.A%12 == 11:
				k = sim.SubCanceledWrapped
			}
			for _, d := range []*sim.SimDA{d1, d2} {
				d.SubmitScript = append(d.SubmitScript, sim.SubmitOutcome{Kind: k, N: int(op.B), Advance: op.C%2 == 1, Decor: int(op.C>>1) % 4})
			}
			o.Count("scripted-submit:"+k.String(), 1)
		case "rscript":
			for _, d := range []*sim.SimDA{d1, d2} {
				h := uint64(op.A % 6)
				d.ReadScript[h] = append(d.ReadScript[h], sim.ReadOutcome{Kind: sim.ReadKind(1 + op.B%4), Chunk: int(op.C % 2), Flavor: []int{0, 1, 2, 3, 5, 5}[int(op.C>>1)%6]})
			}
			o.Count("scripted-read", 1)
		case "advance":
			d1.Advance(1 + uint64(op.A%2))
			d2.Advance(1 + uint64(op.A%2))
		case "plant":
			h := d1.Cur() + 1 + uint64(op.A%2)
			n := 1
			if op.B%5 == 0 {
				n = 101 + int(op.C%20) // forces chunked Get
			}
			for j := 0; j < n; j++ {
				b := []byte(fmt.Sprintf("planted-%d-%d", i, j))
				d1.Plant(h, b, "other")
				d2.Plant(h, b, "other")
			}
		case "submit", "submit-cancelled":
			blobs := c16Blobs(op, i, limit)
			if len(blobs) == 0 {
				// the client answers an empty submission itself; a scripted outcome would be consumed by the
				// direct instance only and desynchronise the two backing stores (a harness artefact)
				d1.SubmitScript, d2.SubmitScript = nil, nil
				if op.K == "submit-cancelled" {
					continue // an empty submission never reaches the wire; its context is irrelevant
				}
			}
			ctx1, c1 := context.WithCancel(context.Background())
			ctx2, c2 := context.WithCancel(context.Background())
			if op.K == "submit-cancelled" {
				// one well-formed blob: which of two independent defects of a call (oversize and cancelled) is
				// reported first is not something the statement fixes
				blobs = [][]byte{[]byte(fmt.Sprintf("%03d-cancelled", i))}
				c1()
				c2()
				o.Count("pre-cancelled-calls", 1)
			}
			r1 := types.SubmitWithHelpers(ctx1, direct, logger, blobs, 1, nil)
			r2 := types.SubmitWithHelpers(ctx2, proxied, logger, blobs, 1, nil)
			c1()
			c2()
			what := fmt.Sprintf("submit of %d blobs %v (limit %d)", len(blobs), blobSizes(blobs), limit)
			if r1.Code != r2.Code {
				fail(i, "C16/submit-classified-differently", what, fmt.Sprintf("direct status %d (%q), proxied status %d (%q)", r1.Code, r1.Message, r2.Code, r2.Message))
				o.V.Sig = fmt.Sprintf("C16/submit-classified-differently/direct=%d/proxied=%d", r1.Code, r2.Code)
				return o
			}
			if r1.SubmittedCount != r2.SubmittedCount || len(r1.IDs) != len(r2.IDs) {
				fail(i, "C16/submitted-count-differs", what, fmt.Sprintf("direct took %d (ids %d), proxied took %d (ids %d)", r1.SubmittedCount, len(r1.IDs), r2.SubmittedCount, len(r2.IDs)))
				return o
			}
			if r1.Code == coreda.StatusSuccess {
				// exactly those blobs are on the backing store, and they are the longest prefix that fits
				fit, sz := 0, uint64(0)
				for _, b := range blobs {
					if sz+uint64(len(b)) > limit {
						break
					}
					sz += uint64(len(b))
					fit++
				}
				if uint64(fit) < r2.SubmittedCount {
					fail(i, "C16/more-submitted-than-fits", what, fmt.Sprintf("proxied reports %d taken but only %d fit", r2.SubmittedCount, fit))
					return o
				}
			}
			if msg := compareStores(d1, d2); msg != "" {
				fail(i, "C16/backing-stores-differ", what, msg)
				return o
			}
			if r1.Code == coreda.StatusSuccess && uint64(len(blobs)) > r1.SubmittedCount {
				o.Count("prefix-submissions", 1)
			}
			o.Count(fmt.Sprintf("submit-status-%d", r1.Code), 1)
		case "retrieve":
			h := uint64(op.A % 7)
			r1 := types.RetrieveWithHelpers(context.Background(), direct, logger, h, nil)
			r2 := types.RetrieveWithHelpers(context.Background(), proxied, logger, h, nil)
			what := fmt.Sprintf("retrieve of height %d", h)
			if r1.Code != r2.Code {
				fail(i, "C16/retrieve-classified-differently", what, fmt.Sprintf("direct status %d (%q), proxied status %d (%q)", r1.Code, r1.Message, r2.Code, r2.Message))
				o.V.Sig = fmt.Sprintf("C16/retrieve-classified-differently/direct=%d/proxied=%d", r1.Code, r2.Code)
				return o
			}
			if len(r1.Data) != len(r2.Data) || len(r1.IDs) != len(r2.IDs) {
				fail(i, "C16/retrieved-blobs-differ", what, fmt.Sprintf("direct %d blobs/%d ids, proxied %d blobs/%d ids", len(r1.Data), len(r1.IDs), len(r2.Data), len(r2.IDs)))
				return o
			}
			for j := range r1.Data {
				if !bytes.Equal(r1.Data[j], r2.Data[j]) || !bytes.Equal(r1.IDs[j], r2.IDs[j]) {
					fail(i, "C16/retrieved-blobs-differ", what, fmt.Sprintf("blob/id %d differs", j))
					return o
				}
			}
			o.Count(fmt.Sprintf("retrieve-status-%d", r1.Code), 1)
		}
		o.States = append(o.States, fmt.Sprintf("cur=%d blobs=%d", d1.Cur(), len(d1.AllBlobs())))
		o.Logf("%d %s", i, op)
	}
	calls := 0
	for k, v := range o.Counters {
		if strings.HasPrefix(k, "submit-status") || strings.HasPrefix(k, "retrieve-status") {
			calls += v
		}
	}
	o.NonTrivial = calls >= 3
	return o
}

func blobSizes(b [][]byte) []int {
	out := make([]int, len(b))
	for i := range b {
		out[i] = len(b[i])
	}
	return out
}

func compareStores(a, b *sim.SimDA) string {
	x, y := a.AllBlobs(), b.AllBlobs()
	if len(x) != len(y) {
		return fmt.Sprintf("direct backing store holds %d blobs, proxied %d", len(x), len(y))
	}
	for i := range x {
		if x[i].Height != y[i].Height || !bytes.Equal(x[i].Data, y[i].Data) {
			return fmt.Sprintf("blob %d differs between the backing stores", i)
		}
	}
	return ""
}

func c16Gen(r *rand.Rand, tier string) *sim.Scn {
	s := &sim.Scn{Cfg: map[string]int64{"limit": []int64{60, 100, 250}[r.IntN(3)], "empty": r.Int64N(3), "auto": r.Int64N(2)}}
	n := 4 + r.IntN(26)
	if r.IntN(12) == 0 {
		// the production size limit (the client's built-in default) and blobs of that order
		s.Cfg["limit"] = 1974272
		n = 3 + r.IntN(6)
	}
	pErr := r.IntN(60)
	for i := 0; i < n; i++ {
		switch x := r.IntN(100); {
		case x < 40:
			if r.IntN(100) < pErr {
				s.Ops = append(s.Ops, sim.Op{K: "script", A: r.Int64N(12), B: r.Int64N(4), C: r.Int64N(8)})
			}
			k := "submit"
			if r.IntN(15) == 0 {
				k = "submit-cancelled"
			}
			s.Ops = append(s.Ops, sim.Op{K: k, A: r.Int64N(6), B: r.Int64N(8)})
		case x < 55:
			s.Ops = append(s.Ops, sim.Op{K: "advance", A: r.Int64N(2)})
		case x < 65:
			s.Ops = append(s.Ops, sim.Op{K: "plant", A: r.Int64N(2), B: r.Int64N(10), C: r.Int64N(20)})
		case x < 75:
			s.Ops = append(s.Ops, sim.Op{K: "rscript", A: r.Int64N(6), B: r.Int64N(4), C: r.Int64N(12)})
		default:
			s.Ops = append(s.Ops, sim.Op{K: "retrieve", A: r.Int64N(7)})
		}
	}
	return s
}

func TestC16(t *testing.T) {
	sim.Main(t, &sim.Check{
		ID:    "C16",
		Level: "exploration",
		Rule: "seeded call sequences through the node's helpers on a direct and a proxied instance of identically configured simulated DA layers: submissions of 0-5 blobs with sizes around the limit (0,1,30,59,60,61,100,200 bytes; limit 60/100/250), every submit error of the interface injected at the backing store (timed out, already in mempool, too big, deadline, generic, acknowledgement lost, sequence error, partial acceptance, a cancellation reported by the DA side while the caller's context is live - bare and wrapped; each error also decorated the way DA nodes do: wrapped with context, joined with Go's deadline error in either order), pre-cancelled contexts, retrievals of heights that are empty / from the future / failing on listing / failing on a Get chunk / holding >100 blobs; " +
			"compared call by call (status code, submitted count, ids, blobs, backing-store contents). distinct = distinct scenario hash; non-trivial = at least 3 compared calls",
		Assumptions: []string{"the JSON-RPC transport is a real loopback socket (no seam in NewClient); it runs outside the simulated clock", "the two backing stores are separate but identically configured and driven"},
		Components:  map[string]string{"da/jsonrpc client, server, error mapping": "real (loopback HTTP)", "types.SubmitWithHelpers / RetrieveWithHelpers": "real", "backing DA": "stub (SimDA)"},
		Gen:         c16Gen,
		Run:         c16Run,
		Workers:     8,
		QuickBudget: 25 * time.Second, ThoroughBudget: 8 * time.Minute,
	})
}
