package checks

import (
	"fmt"
	"math/rand/v2"
	"os"
	"testing"
	"time"

	"verif/harness/sim"
)

// C04 — the sequencer node recovers from a crash at any point of block production.
//
// One scenario is a *family*: a history prefix (transactions, reaps, productions, clean restarts) and
// a target production step. Run enumerates every durable-write boundary of the target step as a crash
// point (before the first write ... after the last), and for each of them every boundary of the first
// production step of the recovery (nesting depth 2; depth 3 when cfg depth=3). Each member of the
// family is executed from scratch in its own bubble, so every run is a pure function of the scenario.

type c04Result struct {
	fired []bool // per requested crash level: did it fire
	v     bool
}

// c04Once executes the scenario with crash points ks (ks[0] cuts the target step, ks[1] the first
// production of the recovery, ...). It returns which of them fired.
func c04Once(t *testing.T, s *sim.Scn, ks []int, o *sim.Outcome) (fired []bool) {
	fired = make([]bool, len(ks))
	p := sim.Bubble(t, func() {
		start := time.Now()
		w := sim.NewWorld(t, "c04", uint64(max64(1, s.Cfg["ih"])))
		defer w.Close()
		n := w.AddNode(sim.NodeCfg{Name: "seq", Aggregator: true, QueueSize: int(s.Cfg["queue"])})
		r := newAggRun(w, n, o)
		if !r.start(-1, "C04") {
			return
		}
		target := -1 // the target step is the last production of the history
		for i, op := range s.Ops {
			if op.K == "produce" {
				target = i
			}
		}
		level := 0
		fail := func(oracle, sig string, step int, obs, exp string) {
			o.Fail(oracle, sig, step, fmt.Sprintf("[crash points %v, cut %s] %s", ks, r.cutLabel, obs), exp)
		}
		for i, op := range s.Ops {
			k := -1
			if i == target && level < len(ks) {
				k = ks[level]
			}
			f, err := r.exec(op, k)
			if i == target && level < len(ks) {
				fired[level] = f
				level++
				if !f {
					// the crash point lies beyond the last write of the step: the family member is complete
					return
				}
			}
			if msg := r.noteExposed(); msg != "" {
				fail("C04/committed-block-replaced", "", i, msg, "a committed or published block is never replaced")
				return
			}
			if f || !n.Alive {
				if !r.start(i, "C04") {
					return
				}
			} else if err != nil && (op.K == "produce") {
				// a real node exits when the aggregation loop reports an error, and is restarted
				_ = n.StopClean()
				if !r.start(i, "C04") {
					return
				}
			}
			if i == target {
				break // the rest of the history is the recovery below
			}
		}
		// recovery: cooperative environment, production must resume. Nested crashes cut the first production.
		for {
			hStart := n.Height()
			var lastErr error
			progressed := false
			restartLevel := false
			for step := 0; step < 3; step++ {
				time.Sleep(time.Second)
				r.exec(sim.Op{K: "tx", A: 0}, -1)
				r.exec(sim.Op{K: "reap"}, -1)
				k := -1
				if step == 0 && level < len(ks) {
					k = ks[level]
				}
				hb := n.Height()
				f, err := r.exec(sim.Op{K: "produce"}, k)
				if step == 0 && level < len(ks) {
					fired[level] = f
					level++
					if !f {
						return
					}
				}
				if msg := r.noteExposed(); msg != "" {
					fail("C04/committed-block-replaced", "", len(s.Ops)+step, msg, "a committed or published block is never replaced")
					return
				}
				if f {
					if !r.start(len(s.Ops)+step, "C04") {
						return
					}
					restartLevel = true
					break
				}
				h := n.Height()
				if h > hb+1 || h < hb {
					fail("C04/height-skipped-or-decreased", "", len(s.Ops)+step, fmt.Sprintf("height %d -> %d in one production step", hb, h), "exactly one more or unchanged")
					return
				}
				lastErr = err
				if err != nil {
					_ = n.StopClean()
					if !r.start(len(s.Ops)+step, "C04") {
						return
					}
				}
				if h > hStart {
					progressed = true
					break
				}
			}
			if restartLevel {
				continue
			}
			if !progressed {
				sig := "C04/wedged-after-restart/cut=" + r.cutLabel
				if lastErr != nil {
					sig += "/" + classifyErr(lastErr.Error())
				}
				fail("C04/wedged-after-restart", sig, len(s.Ops), fmt.Sprintf("height stays %d after restart and 3 production steps; last error: %v", hStart, lastErr), "a block is committed")
				return
			}
			break
		}
		// final: whole chain valid, consecutive, exposed blocks unchanged, height/state/blocks agree
		h := n.Height()
		if h >= r.ih {
			if msg, _ := w.VerifyChain(n.Peek(), r.ih, h, nil); msg != "" {
				fail("C04/invalid-chain-after-recovery", "", len(s.Ops), msg, "a valid chain")
				return
			}
		}
		if msg := w.CheckQuiescent(n.Peek()); msg != "" {
			fail("C04/height-state-blocks-disagree", "", len(s.Ops), msg, "recorded height, recorded state and stored blocks agree")
			return
		}
		o.SimTime += time.Since(start)
		o.States = append(o.States, n.AbstractState()+"/"+r.cutLabel)
	})
	if p != nil {
		o.Fail("C04/panic", "", -1, fmt.Sprintf("[crash points %v] %v", ks, p), "no panic")
	}
	return fired
}

func max64(a, b int64) int64 {
	if a > b {
		return a
	}
	return b
}

func c04Run(t *testing.T, s *sim.Scn) *sim.Outcome {
	o := sim.NewOutcome()
	if cs := s.Cfg["cachestate"]; cs > 0 {
		c04CacheRun(t, int(cs), int(s.Cfg["firstsave"]%2), o)
		return o
	}
	if s.Cfg["whole"] == 1 {
		return c04WholeRun(t, s)
	}
	depth := int(s.Cfg["depth"])
	if depth < 1 {
		depth = 2
	}
	images := 0
	var rec func(prefix []int)
	rec = func(prefix []int) {
		for k := 0; k < 64 && o.V == nil; k++ {
			ks := append(append([]int(nil), prefix...), k)
			sub := sim.NewOutcome()
			fired := c04Once(t, s, ks, sub)
			o.Absorb(sub)
			images++
			if !fired[len(ks)-1] {
				return
			}
			o.Count(fmt.Sprintf("crash-depth-%d", len(ks)), 1)
			if len(ks) < depth && sub.V == nil {
				rec(ks)
			}
		}
	}
	rec(nil)
	o.Count("crash-images-restarted", images)
	o.Logf("family images=%d violation=%v", images, o.V != nil)
	o.NonTrivial = o.Counters["crash-depth-1"] >= 3 && o.Counters["crash-depth-2"] >= 3
	return o
}

func c04Gen(r *rand.Rand, tier string) *sim.Scn {
	if (r.IntN(8) == 0 && os.Getenv("VERIF_NO_WHOLE") == "") || os.Getenv("VERIF_C04_WHOLE_ONLY") != "" {
		return c04WholeGen(r, tier)
	}
	s := &sim.Scn{Cfg: map[string]int64{"ih": 1, "depth": 2, "queue": 0}}
	if r.IntN(4) == 0 {
		s.Cfg["ih"] = 1 + r.Int64N(20)
	}
	if tier == "thorough" && r.IntN(6) == 0 {
		s.Cfg["depth"] = 3
	}
	nblocks := r.IntN(9)
	if tier == "thorough" {
		nblocks = r.IntN(31)
	}
	for b := 0; b < nblocks; b++ {
		s.Ops = append(s.Ops, sim.Op{K: "sleep", A: 1000})
		if r.IntN(2) == 0 {
			s.Ops = append(s.Ops, sim.Op{K: "tx", A: r.Int64N(4), B: r.Int64N(6)}, sim.Op{K: "reap"})
		}
		if r.IntN(10) == 0 {
			s.Ops = append(s.Ops, sim.Op{K: "stop"})
		}
		s.Ops = append(s.Ops, sim.Op{K: "produce"})
	}
	// the target step: a production with or without a waiting batch
	s.Ops = append(s.Ops, sim.Op{K: "sleep", A: 1000})
	if r.IntN(3) > 0 {
		s.Ops = append(s.Ops, sim.Op{K: "tx", A: r.Int64N(4)}, sim.Op{K: "reap"})
	}
	s.Ops = append(s.Ops, sim.Op{K: "produce"})
	return s
}

func TestC04(t *testing.T) {
	sim.Main(t, &sim.Check{
		ID:    "C04",
		Level: "fault_enumeration",
		Rule: "a case is a family: seeded history prefix (0-8 quick / 0-30 thorough blocks, empty and non-empty, clean restarts, initial height 1..20) + one target production step; every durable-write boundary of the target step is a crash point, and for each of them every boundary of the first production step of the recovery (depth 2; depth 3 in 1/6 of thorough cases); " +
			"each member is run from scratch and must restart, commit a block within 3 steps, keep every committed/published block, and end with a valid chain whose height, state and blocks agree. " +
			"distinct = distinct family (scenario hash); non-trivial = at least 3 first-level and 3 second-level crash points fired. crash-images-restarted counts the individual executions",
		Assumptions: []string{"crash model: process death; completed datastore writes survive in order; batch commits are atomic", "execution layer double survives node crashes", "cache-file crash states (torn SaveCache) are checked separately by the strace-derived enumeration when enabled (see evidence key cache_file_states)"},
		Components:  map[string]string{"block.Manager": "real", "block.Reaper": "real", "sequencers/single": "real", "pkg/store": "real", "datastore": "stub (SimDatastore with write journal)", "executor": "stub (SimExec)", "DA": "stub (SimDA, unused here)"},
		Gen:         c04Gen,
		Run:         c04Run,
		Enumerate:   c04CacheEnumerate(t),
		CfgMin:      map[string]int64{"ih": 1, "depth": 2},
		QuickBudget: 30 * time.Second, ThoroughBudget: 12 * time.Minute,
	})
}
