package checks

import (
	"context"
	"fmt"
	"math/rand/v2"
	"os"
	"testing"
	"time"

	"github.com/evstack/ev-node/block"

	"verif/harness/sim"
)

// C05 — a full node recovers from a crash at any point of block application.
//
// A scenario is a family: a chain spec, the number of blocks already applied (cfg applied), the number
// of further blocks whose parts are already cached when the triggering event arrives (cfg batch; they
// are applied in one go, so the application has 3 x batch write boundaries), and a seed for the
// delivery order after the restart. Every write boundary of the triggering application is a crash
// point; for each, every boundary of the re-delivery phase is a nested crash point (depth 2).

func c05Once(t *testing.T, s *sim.Scn, ks []int, o *sim.Outcome) (fired []bool) {
	fired = make([]bool, len(ks))
	p := sim.Bubble(t, func() {
		start := time.Now()
		w := sim.NewWorld(t, "c05", 1)
		defer w.Close()
		var spec []int64
		for _, op := range s.Ops {
			if op.K == "spec" {
				spec = append(spec, op.A%10)
			}
		}
		if len(spec) == 0 {
			spec = []int64{1, 0}
		}
		blocks, _, err := buildChain(w, spec)
		if err != nil {
			o.Count("skipped:proposer-failed", 1)
			return
		}
		f := w.AddNode(sim.NodeCfg{Name: "full"})
		fw := &followerWorld{w: w, f: f, blocks: blocks, o: o, planted: map[string]bool{}, hDeliv: map[uint64]bool{}, dDeliv: map[uint64]bool{}, id: "C05"}
		if err := f.StartNode(); err != nil {
			o.Fail("C05/cannot-start", "", -1, err.Error(), "starts")
			return
		}
		top := fw.top()
		n := uint64(len(blocks))
		// refused-write families: the proposer's last block is held back and arrives only after everything else was
		// re-delivered (a proposer keeps producing). A header that was cached - and therefore marked seen - before
		// the orderly stop is applied when the next new block arrives, not when it is delivered again; judging
		// before that would demand more than "continues syncing and reaches the proposer's chain".
		extra := s.Cfg["werr"] == 1 && n >= 3
		if extra {
			n--
		}
		applied := uint64(s.Cfg["applied"]) % n // blocks applied before the target
		batch := uint64(s.Cfg["batch"])
		if batch < 1 {
			batch = 1
		}
		if applied+batch > n {
			batch = n - applied
		}
		cut := ""
		hev := func(i uint64) block.NewHeaderEvent {
			return block.NewHeaderEvent{Header: cloneHeader(blocks[i].Header), DAHeight: 5 + i}
		}
		dev := func(i uint64) block.NewDataEvent {
			return block.NewDataEvent{Data: cloneData(blocks[i].Data), DAHeight: 5 + i}
		}
		fail := func(oracle, sig string, step int, obs, exp string) {
			o.Fail(oracle, sig, step, fmt.Sprintf("[crash points %v, cut %s] %s", ks, cut, obs), exp)
		}
		deliverH := func(i uint64) error { return f.DeliverHeader(hev(i)) }
		deliverD := func(i uint64) error {
			if blocks[i].Empty {
				return nil
			}
			return f.DeliverData(dev(i))
		}
		for i := uint64(0); i < applied; i++ {
			if err := deliverH(i); err != nil {
				fail("C05/sync-halted", "", int(i), err.Error(), "genuine blocks apply")
				return
			}
			if err := deliverD(i); err != nil {
				fail("C05/sync-halted", "", int(i), err.Error(), "genuine blocks apply")
				return
			}
		}
		if f.Height() != applied {
			fail("C05/prefix-not-applied", "", int(applied), fmt.Sprintf("height %d after delivering %d blocks", f.Height(), applied), "prefix applied")
			return
		}
		// cache the rest of the batch, withholding the header of the first block
		for i := applied + 1; i < applied+batch; i++ {
			_ = deliverH(i)
			_ = deliverD(i)
		}
		_ = deliverD(applied)
		// the triggering event, cut by the first crash point
		var terr error
		var f0 bool
		if s.Cfg["werr"] == 1 {
			// not a kill: the storage refuses one write of the application (disk full, I/O error). The sync loop
			// reports the error and the node goes down the orderly way - its caches are saved - and is started again.
			rb := f.Disk.Rejected
			f.Disk.FailAt(ks[0])
			terr = deliverH(applied)
			f0 = f.Disk.Rejected > rb
			cut = "refused:" + f.Disk.FailPrev + "|" + f.Disk.FailLabel
			f.Disk.FailAt(-1)
			if f0 {
				o.Count("fault:write-refused-then-orderly-stop", 1)
				_ = f.StopClean()
			}
		} else {
			f0 = f.WithCrash(ks[0], func() { terr = deliverH(applied) })
			cut = f.Disk.CrashPrev + "|" + f.Disk.CrashLabel
		}
		fired[0] = f0
		if !f0 {
			cut = ""
			if terr != nil {
				fail("C05/sync-halted", "", int(applied), terr.Error(), "genuine blocks apply")
			}
			return
		}
		afterRestart := func(step int) bool {
			if err := f.StartNode(); err != nil {
				fail("C05/cannot-restart", "C05/cannot-restart/cut="+cut, step, err.Error(), "restarts after the crash")
				return false
			}
			fw.restarts++
			// the image right after restart: every height up to the recorded chain height has the proposer's block
			ctx := context.Background()
			st := f.Peek()
			h := f.Height()
			for x := blocks[0].H; x <= h; x++ {
				if _, _, err := st.GetBlockData(ctx, x); err != nil {
					fail("C05/recorded-height-without-block", "C05/recorded-height-without-block/cut="+cut, step,
						fmt.Sprintf("after restart the recorded chain height is %d but height %d has no retrievable block: %v", h, x, err), "every height up to the recorded chain height has a retrievable block")
					return false
				}
			}
			if !fw.checkPrefix(step, "image after restart") {
				return false
			}
			if msg := w.CheckQuiescent(st); msg != "" {
				fail("C05/state-does-not-match-height", "C05/state-does-not-match-height/cut="+cut, step, "after restart: "+msg, "recorded state corresponds to exactly the recorded chain height")
				return false
			}
			return true
		}
		if !afterRestart(int(applied)) {
			return
		}
		// re-delivery of everything not yet applied, in a seeded order; a nested crash point cuts this phase
		level := 1
		for attempt := 0; attempt < 4; attempt++ {
			type ev struct {
				i    uint64
				data bool
			}
			var evs []ev
			for i := f.Height(); i < n; i++ {
				evs = append(evs, ev{i, false})
				if !blocks[i].Empty {
					evs = append(evs, ev{i, true})
				}
			}
			r := rand.New(rand.NewPCG(uint64(s.Cfg["order"]), uint64(attempt)))
			r.Shuffle(len(evs), func(a, b int) { evs[a], evs[b] = evs[b], evs[a] })
			armed := false
			if level < len(ks) {
				f.Disk.Arm(ks[level])
				armed = true
			}
			crashed := false
			for _, e := range evs {
				var err error
				if e.data {
					err = f.DeliverData(dev(e.i))
				} else {
					err = f.DeliverHeader(hev(e.i))
				}
				if armed && f.Disk.CrashFired {
					break
				}
				if err != nil {
					fail("C05/sync-halted", "C05/sync-halted/"+classifyErr(err.Error()), int(e.i), fmt.Sprintf("after restart, delivering block %d: %v", e.i+1, err), "the node continues syncing")
					return
				}
				if !fw.checkPrefix(int(e.i), "re-delivery") {
					return
				}
			}
			if armed {
				if f.AfterActivity() {
					fired[level] = true
					cut = f.Disk.CrashPrev + "|" + f.Disk.CrashLabel
					level++
					crashed = true
					if !afterRestart(int(applied)) {
						return
					}
				} else {
					level = len(ks) + 1 // the nested crash point lies beyond the phase
				}
			}
			if !crashed {
				break
			}
		}
		if extra {
			if err := deliverH(n); err == nil {
				err = deliverD(n)
				_ = err
			}
		}
		if h := f.Height(); h != top {
			fail("C05/not-converged-after-crash", "C05/not-converged-after-crash/cut="+cut, int(n), fmt.Sprintf("all parts re-delivered but height is %d, proposer's is %d", h, top), "the follower reaches the proposer's chain")
			return
		}
		if !fw.checkPrefix(int(n), "final") {
			return
		}
		if msg := w.CheckQuiescent(f.Peek()); msg != "" {
			fail("C05/state-does-not-match-height", "", int(n), "final: "+msg, "state corresponds to the chain height")
			return
		}
		o.SimTime += time.Since(start)
		o.States = append(o.States, f.AbstractState()+"/"+cut)
	})
	if p != nil {
		o.Fail("C05/panic", "", -1, fmt.Sprintf("[crash points %v] %v", ks, p), "no panic")
	}
	return fired
}

// c05DAOnce is the DA-driven member of the family (cfg src=1): every part of the chain lies on the DA
// layer at a seeded height (header and data of a block at different heights, later blocks' headers
// below earlier blocks' data), the follower's real RetrieveLoop scans it and the emitted events are
// handed to the real SyncLoop in emission order. Crash point ks[0] cuts a durable write of this
// scan-and-apply phase, ks[1] one of the phase after the restart; whatever was only in memory (queued
// events, cached parts) is lost with the process. After the last restart the scan must bring the
// follower to the proposer's height from the DA layer alone.
func c05DAOnce(t *testing.T, s *sim.Scn, ks []int, o *sim.Outcome) (fired []bool) {
	fired = make([]bool, len(ks))
	p := sim.Bubble(t, func() {
		start := time.Now()
		w := sim.NewWorld(t, "c05", 1)
		defer w.Close()
		var spec []int64
		for _, op := range s.Ops {
			if op.K == "spec" {
				spec = append(spec, op.A%10)
			}
		}
		if len(spec) == 0 {
			spec = []int64{1, 0}
		}
		blocks, _, err := buildChain(w, spec)
		if err != nil {
			o.Count("skipped:proposer-failed", 1)
			return
		}
		f := w.AddNode(sim.NodeCfg{Name: "full"})
		fw := &followerWorld{w: w, f: f, blocks: blocks, o: o, planted: map[string]bool{}, hDeliv: map[uint64]bool{}, dDeliv: map[uint64]bool{}, id: "C05"}
		n := len(blocks)
		lr := rand.New(rand.NewPCG(uint64(s.Cfg["order"]), 77))
		span := uint64(2 + lr.IntN(2*n+2))
		style := s.Cfg["order"] % 3 // 0 anywhere, 1 all headers low and data above, 2 header and data of a block adjacent
		last := uint64(0)
		for i, b := range blocks {
			hh, dh := 1+lr.Uint64N(span), 1+lr.Uint64N(span)
			switch style {
			case 1:
				hh, dh = 1+lr.Uint64N(2), 3+uint64(i)
			case 2:
				hh = 1 + uint64(i)
				dh = hh + lr.Uint64N(2)
			}
			w.DA.Plant(hh, b.HBlob, "proposer")
			if b.DBlob != nil {
				w.DA.Plant(dh, b.DBlob, "proposer")
				if dh > last {
					last = dh
				}
			}
			if hh > last {
				last = hh
			}
		}
		w.DA.SetCur(last + 2)
		if err := f.StartNode(); err != nil {
			o.Fail("C05/cannot-start", "", -1, err.Error(), "starts")
			return
		}
		top := fw.top()
		cut := ""
		fail := func(oracle, sig string, step int, obs, exp string) {
			o.Fail(oracle, sig, step, fmt.Sprintf("[DA-driven, crash points %v, cut %s] %s", ks, cut, obs), exp)
		}
		// one phase: scan and apply until the top is reached or two rounds bring nothing; reports a sync error
		phase := func(armed bool) error {
			idle := 0
			for round := 0; round < 4*n+8 && idle < 2 && f.Height() < top; round++ {
				hb := f.Height()
				f.Retrieve()
				if armed && f.Disk.CrashFired {
					return nil
				}
				hq, dq := f.HeaderFIFO, f.DataFIFO
				f.HeaderFIFO, f.DataFIFO = nil, nil
				got := len(hq) + len(dq)
				for len(hq)+len(dq) > 0 {
					var err error
					if len(dq) == 0 || (len(hq) > 0 && hq[0].DAHeight <= dq[0].DAHeight) {
						err = f.DeliverHeader(hq[0])
						hq = hq[1:]
					} else {
						err = f.DeliverData(dq[0])
						dq = dq[1:]
					}
					if armed && f.Disk.CrashFired {
						return nil
					}
					if err != nil {
						return err
					}
				}
				if got == 0 && f.Height() == hb {
					idle++
				} else {
					idle = 0
				}
			}
			return nil
		}
		for level := 0; level <= len(ks); level++ {
			armed := level < len(ks)
			if armed {
				f.Disk.Arm(ks[level])
			}
			err := phase(armed)
			crashed := false
			if armed {
				crashed = f.AfterActivity()
			}
			if err != nil && !crashed {
				fail("C05/sync-halted", "C05/sync-halted/"+classifyErr(err.Error()), level, err.Error(), "genuine blocks apply")
				return
			}
			if !crashed {
				break
			}
			fired[level] = true
			cut = f.Disk.CrashPrev + "|" + f.Disk.CrashLabel
			if err := f.StartNode(); err != nil {
				fail("C05/cannot-restart", "C05/cannot-restart/cut="+cut, level, err.Error(), "restarts after the crash")
				return
			}
			fw.restarts++
			if !fw.checkPrefix(level, "image after restart") {
				return
			}
			if msg := w.CheckQuiescent(f.Peek()); msg != "" {
				fail("C05/state-does-not-match-height", "C05/state-does-not-match-height/cut="+cut, level, "after restart: "+msg, "recorded state corresponds to exactly the recorded chain height")
				return
			}
		}
		if !f.Alive {
			return
		}
		if h := f.Height(); h != top {
			fail("C05/not-converged-after-crash", "C05/not-converged-after-crash/da-driven", n, fmt.Sprintf("every part of the chain is on the DA layer (heights 1..%d, follower's scan position %d) but after the restart the height stays %d, proposer's is %d", last, f.M.VerifDAHeight(), h, top), "the follower reaches the proposer's chain")
			return
		}
		if !fw.checkPrefix(n, "final") {
			return
		}
		if msg := w.CheckQuiescent(f.Peek()); msg != "" {
			fail("C05/state-does-not-match-height", "", n, "final: "+msg, "state corresponds to the chain height")
			return
		}
		o.SimTime += time.Since(start)
		o.States = append(o.States, f.AbstractState()+"/da/"+cut)
	})
	if p != nil {
		o.Fail("C05/panic", "", -1, fmt.Sprintf("[DA-driven, crash points %v] %v", ks, p), "no panic")
	}
	return fired
}

func c05Run(t *testing.T, s *sim.Scn) *sim.Outcome {
	if s.Cfg["whole"] == 1 {
		return c05WholeRun(t, s)
	}
	once := c05Once
	if s.Cfg["src"] == 1 {
		once = c05DAOnce
	}
	o := sim.NewOutcome()
	images := 0
	for k1 := 0; k1 < 64 && o.V == nil; k1++ {
		sub := sim.NewOutcome()
		fired := once(t, s, []int{k1}, sub)
		o.Absorb(sub)
		images++
		if !fired[0] {
			break
		}
		o.Count("crash-depth-1", 1)
		if sub.V != nil {
			continue
		}
		if s.Cfg["werr"] == 1 {
			// a refused write followed by an orderly stop is a clean stop at that point (C02's quantifier), not a
			// process death; it is not combined with kills (a kill after it brings back the caches the orderly stop
			// saved, with headers marked seen that are merely cached: the node then applies them when the next new
			// block arrives - a state outside both properties' quantifiers, see DESIGN 11.3)
			continue
		}
		for k2 := 0; k2 < 64 && o.V == nil; k2++ {
			sub2 := sim.NewOutcome()
			fired2 := once(t, s, []int{k1, k2}, sub2)
			o.Absorb(sub2)
			images++
			if len(fired2) < 2 || !fired2[1] {
				break
			}
			o.Count("crash-depth-2", 1)
		}
	}
	o.Count("crash-images-restarted", images)
	o.Logf("family images=%d violation=%v", images, o.V != nil)
	o.NonTrivial = o.Counters["crash-depth-1"] >= 3 && (o.Counters["crash-depth-2"] >= 3 || s.Cfg["werr"] == 1)
	return o
}

func c05Gen(r *rand.Rand, tier string) *sim.Scn {
	if (r.IntN(8) == 0 && os.Getenv("VERIF_NO_WHOLE") == "") || os.Getenv("VERIF_C05_WHOLE_ONLY") != "" {
		return c05WholeGen(r, tier)
	}
	n := 2 + r.IntN(6)
	if tier == "thorough" {
		n = 2 + r.IntN(14)
	}
	s := &sim.Scn{Cfg: map[string]int64{"applied": r.Int64N(int64(n)), "batch": 1 + r.Int64N(3), "order": r.Int64N(1 << 30)}}
	if r.IntN(3) == 0 {
		s.Cfg["src"] = 1 // DA-driven member
	} else if r.IntN(3) == 0 {
		s.Cfg["werr"] = 1 // first level: a refused write and an orderly stop instead of a kill
	}
	pEmpty := r.IntN(60)
	for i := 0; i < n; i++ {
		v := int64(1 + r.IntN(3))
		if r.IntN(100) < pEmpty {
			v = 0
		} else if r.IntN(12) == 0 {
			v = 9
		}
		s.Ops = append(s.Ops, sim.Op{K: "spec", A: v})
	}
	return s
}

func TestC05(t *testing.T) {
	sim.Main(t, &sim.Check{
		ID:    "C05",
		Level: "fault_enumeration",
		Rule: "a case is a family: seeded chain (2-7 blocks quick, up to 15 thorough; empty/non-empty/identical tx lists), number of blocks applied before, number of blocks applied by the triggering event (1-3), delivery-order seed; every durable-write boundary of the triggering application is a crash point (in about a fifth of the families the write at that boundary is refused by the storage instead, the sync loop reports it and the node goes down the orderly way, caches saved) and, for each, every boundary of the seeded re-delivery phase is a nested crash point; " +
			"a third of the families are DA-driven instead: the whole chain lies on the simulated DA layer at seeded heights (header and data of a block apart, later headers below earlier data), the real RetrieveLoop and SyncLoop scan and apply it, crash points cut the durable writes of that phase, in-memory queues and caches die with the process, and the scan alone must bring the restarted node to the proposer's height; each member is run from scratch. distinct = distinct family hash; non-trivial = at least 3 first-level and 3 nested crash points fired",
		Assumptions: []string{"crash model: process death; completed datastore writes survive in order", "in the event-driven families events are handed to the sync loop directly; in the DA-driven families they come from the real RetrieveLoop"},
		Components:  map[string]string{"block.Manager.SyncLoop / trySyncNextBlock": "real", "block.Manager.RetrieveLoop (DA-driven families)": "real", "DA": "stub (SimDA)", "pkg/store": "real", "pkg/cache": "real", "proposer": "real aggregator", "datastore": "stub (SimDatastore)", "executor": "stub (SimExec)"},
		Gen:         c05Gen,
		Run:         c05Run,
		CfgMin:      map[string]int64{"batch": 1},
		QuickBudget: 30 * time.Second, ThoroughBudget: 12 * time.Minute,
	})
}
