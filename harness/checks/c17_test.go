package checks

import (
	"context"
	"fmt"
	"math/rand/v2"
	"sort"
	"testing"
	"testing/synctest"
	"time"

	"verif/harness/sim"
)

// C17 — lazy mode: blocks on demand and on the idle interval, never a lost wake-up.
//
// World: the real AggregationLoop (lazy and normal) of a real Manager inside the bubble; publishBlock
// is replaced (hook) by a recorder that takes a seeded simulated production time. Notifications arrive
// at seeded instants (with a sub-millisecond offset so that they never tie with a timer).
// cfg: lazy, bt (block interval ms), lz (idle interval ms), run (ms)
// ops: notify(A=offset ms, B=ns jitter)   a NotifyNewTransactions call at that instant
//      dur(A=ms)                          production duration of the next production (consumed in order; default 0)

type c17Prod struct{ start, end time.Duration }

func c17Run(t *testing.T, s *sim.Scn) *sim.Outcome {
	o := sim.NewOutcome()
	if p := sim.Bubble(t, func() { c17Body(t, s, o) }); p != nil {
		o.Fail("C17/panic", "", -1, fmt.Sprint(p), "no panic")
	}
	return o
}

func c17Body(t *testing.T, s *sim.Scn, o *sim.Outcome) {
	bt := time.Duration(max64(10, s.Cfg["bt"])) * time.Millisecond
	lz := time.Duration(max64(2, s.Cfg["lz"])) * time.Millisecond
	lazy := s.Cfg["lazy"] == 1
	btZero := s.Cfg["btzero"] == 1
	if btZero {
		bt = time.Second // block_time is configured as 0s: the node's default applies
	}
	run := time.Duration(max64(100, s.Cfg["run"])) * time.Millisecond
	if btZero && run < 12*time.Second {
		run = 12 * time.Second
	}
	w := sim.NewWorld(t, "c17", 1)
	defer w.Close()
	n := w.AddNode(sim.NodeCfg{Name: "seq", Aggregator: true, LazyMode: lazy, BlockTime: bt, BlockTimeZero: btZero, LazyInterval: lz})
	if err := n.StartNode(); err != nil {
		o.Fail("C17/cannot-start", "", -1, err.Error(), "starts")
		return
	}
	// restart family (cfg restart=1): the chain already has blocks (really produced, one per block interval),
	// the node is stopped for `down` ms and started again; the loop under test is the one of the second
	// incarnation, whose start-up wait is derived from the time of the last block.
	restart := s.Cfg["restart"] == 1
	if restart {
		for i := int64(0); i < 1+s.Cfg["pre"]%3; i++ {
			time.Sleep(bt)
			if err := n.Produce(); err != nil {
				o.Fail("C17/cannot-produce", "", -1, err.Error(), "produces")
				return
			}
		}
		time.Sleep(time.Duration(s.Cfg["down"]) * time.Millisecond)
		_ = n.StopClean()
		if err := n.StartNode(); err != nil {
			o.Fail("C17/cannot-start", "", -1, err.Error(), "restarts")
			return
		}
		o.Count("restarts-with-blocks", 1)
	}
	t0 := time.Now()
	var durs []time.Duration
	type note struct{ at time.Duration }
	var notes []note
	for _, op := range s.Ops {
		switch op.K {
		case "dur":
			durs = append(durs, time.Duration(op.A%int64(3*bt/time.Millisecond+1))*time.Millisecond)
		case "notify":
			at := time.Duration(op.A%int64(run/time.Millisecond))*time.Millisecond + time.Duration(1+op.B%999)*time.Microsecond + time.Duration(1+op.B%997)
			notes = append(notes, note{at})
		}
	}
	sort.Slice(notes, func(i, j int) bool { return notes[i].at < notes[j].at })
	var prods []c17Prod
	n.M.VerifSetPublishBlock(func(ctx context.Context) error {
		st := time.Since(t0)
		var d time.Duration
		if len(prods) < len(durs) {
			d = durs[len(prods)]
		}
		if d > 0 {
			select {
			case <-time.After(d):
			case <-ctx.Done():
			}
		}
		prods = append(prods, c17Prod{st, time.Since(t0)})
		return nil
	})
	ctx, cancel := context.WithCancel(context.Background())
	errCh := make(chan error, 1)
	done := make(chan struct{})
	go func() { defer close(done); n.M.AggregationLoop(ctx, errCh) }()
	ndone := make(chan struct{})
	go func() {
		defer close(ndone)
		for _, nt := range notes {
			d := nt.at - time.Since(t0)
			if d > 0 {
				select {
				case <-time.After(d):
				case <-ctx.Done():
					return
				}
			}
			n.M.NotifyNewTransactions()
		}
	}()
	time.Sleep(run)
	synctest.Wait()
	cancel()
	<-done
	<-ndone
	end := time.Since(t0)
	o.SimTime = end
	o.Count("productions", len(prods))
	o.Count("notifications", len(notes))
	for i, p := range prods {
		o.Logf("prod %d start=%v end=%v", i, p.start, p.end)
	}
	if len(prods) == 0 {
		o.Fail("C17/no-block-produced", "", -1, fmt.Sprintf("no production in %v (block interval %v, idle interval %v, lazy=%v)", run, bt, lz, lazy), "blocks are produced")
		return
	}
	mode := "normal"
	if lazy {
		mode = "lazy"
	}
	if restart && !lazy && prods[0].start > bt+time.Millisecond {
		// the start-up wait of a chain that has blocks ends one block interval after the last block at the latest
		o.Fail("C17/normal-mode-interval-missed", "C17/normal-mode-interval-missed/after-restart", 0,
			fmt.Sprintf("restarted on a chain with blocks: first production %v after the loop started, block interval %v", prods[0].start, bt), "one block per block interval")
		return
	}
	ratio := "idle>=block"
	if lazy && lz < bt {
		ratio = "idle<block"
	}
	noteIn := func(a, b time.Duration) bool {
		for _, nt := range notes {
			if nt.at >= a && nt.at <= b {
				return true
			}
		}
		return false
	}
	for i := 0; i+1 < len(prods); i++ {
		gap := prods[i+1].start - prods[i].start
		dur := prods[i].end - prods[i].start
		if gap < bt {
			o.Fail("C17/faster-than-block-interval", "C17/faster-than-block-interval/"+mode+"/"+ratio, i,
				fmt.Sprintf("%s mode: productions %d and %d start %v apart, block interval %v (idle interval %v, production took %v)", mode, i, i+1, gap, bt, lz, dur), "never faster than one block per block interval")
			return
		}
		if !lazy {
			hi := bt
			if dur > hi {
				hi = dur
			}
			hi += bt
			if gap > hi {
				o.Fail("C17/normal-mode-interval-missed", "", i, fmt.Sprintf("productions %d and %d start %v apart, block interval %v, production took %v", i, i+1, gap, bt, dur), "one block per block interval regardless of notifications")
				return
			}
			continue
		}
		// lazy mode. No lower bound besides the block interval: the statement promises a block at least every
		// idle interval; an extra block (e.g. one triggered by the flag an earlier notification left behind) is
		// not excluded by it.
		idle := lz
		if idle < bt {
			idle = bt // an idle interval below the block interval cannot be honoured (blocks are never faster than that)
		}
		hi := idle
		if dur > hi {
			hi = dur
		}
		hi += bt
		if gap > hi {
			o.Fail("C17/idle-block-missed", "", i, fmt.Sprintf("productions %d and %d start %v apart, idle interval %v, production took %v", i, i+1, gap, lz, dur), "at least one block per idle interval")
			return
		}
		if !noteIn(prods[i].start-bt, prods[i+1].start) {
			o.Count("idle-gaps-checked", 1)
		}
	}
	if !lazy {
		// the last production must not be overdue either
		last := prods[len(prods)-1]
		if end-last.end > 2*bt+time.Millisecond && end-last.start > 2*bt {
			o.Fail("C17/normal-mode-interval-missed", "", len(prods), fmt.Sprintf("no production for %v at the end of the run (block interval %v)", end-last.end, bt), "one block per block interval")
		}
		o.NonTrivial = len(prods) >= 3
		return
	}
	for i, nt := range notes {
		tp := nt.at
		inflight := false
		for _, p := range prods {
			if p.start <= nt.at && nt.at < p.end {
				tp = p.end
				inflight = true
			}
		}
		if nt.at < prods[0].start && !restart {
			// a notification during the start-up delay is served by the first production, which starts as
			// soon as the loop runs (the start-up delay of a new chain - waiting for the genesis time - is not
			// part of the statement). A node restarted on a chain that has blocks is a running sequencer: it
			// owes the block within one block interval like at any other time.
			continue
		}
		if tp+bt+time.Millisecond >= end {
			continue // the run ended before the deadline
		}
		found := false
		for _, p := range prods {
			if p.start > tp && p.start <= tp+bt {
				found = true
				break
			}
		}
		if inflight {
			o.Count("notifications-during-production", 1)
		}
		if !found {
			class := "while-idle"
			if inflight {
				class = "during-production"
			}
			o.Fail("C17/notification-not-served", "C17/notification-not-served/"+class, i,
				fmt.Sprintf("notification at %v (production in flight: %v, so counting from %v): no production starts within one block interval (%v) after it", nt.at, inflight, tp, bt),
				"a block within one block interval after a notification; a notification during a production leads to a further block")
			return
		}
	}
	o.NonTrivial = len(prods) >= 3 && len(notes) >= 1
}

func c17Gen(r *rand.Rand, tier string) *sim.Scn {
	bt := []int64{10, 50, 100, 1000, 10000}[r.IntN(5)]
	ratios := []float64{1, 1.5, 2, 5, 20, 60, 100}
	if r.IntN(6) == 0 {
		ratios = []float64{0.2, 0.5, 0.9}
	}
	lz := int64(float64(bt) * ratios[r.IntN(len(ratios))])
	blocks := 20 + r.IntN(200)
	if tier == "thorough" {
		blocks = 50 + r.IntN(450)
	}
	s := &sim.Scn{Cfg: map[string]int64{"lazy": 1, "bt": bt, "lz": lz, "run": bt * int64(blocks)}}
	if r.IntN(4) == 0 {
		s.Cfg["lazy"] = 0
	}
	if r.IntN(12) == 0 {
		// block_time configured as 0s (the 1 s default applies), idle interval below or above it
		bt = 1000
		s.Cfg["btzero"], s.Cfg["bt"] = 1, bt
		s.Cfg["lz"] = []int64{100, 250, 900, 1000, 3000}[r.IntN(5)]
		blocks = 12 + r.IntN(30)
		s.Cfg["run"] = bt * int64(blocks)
	}
	if r.IntN(5) == 0 {
		// restart family: short second incarnation, notifications concentrated in its first idle interval
		s.Cfg["restart"], s.Cfg["pre"] = 1, r.Int64N(3)
		lzNow := s.Cfg["lz"]
		s.Cfg["down"] = []int64{0, bt / 3, bt, lzNow / 2, lzNow, 2 * lzNow}[r.IntN(6)]
		blocks = 6 + r.IntN(20)
		s.Cfg["run"] = max64(bt*int64(blocks), 3*lzNow)
	}
	pSlow := r.IntN(60)
	for i := 0; i < blocks; i++ {
		d := int64(0)
		if r.IntN(100) < pSlow {
			d = r.Int64N(3*bt + 1)
		}
		s.Ops = append(s.Ops, sim.Op{K: "dur", A: d})
	}
	nn := r.IntN(blocks)
	for i := 0; i < nn; i++ {
		s.Ops = append(s.Ops, sim.Op{K: "notify", A: r.Int64N(s.Cfg["run"]), B: r.Int64N(100000)})
	}
	if s.Cfg["restart"] == 1 {
		for i := r.IntN(3); i >= 0; i-- {
			s.Ops = append(s.Ops, sim.Op{K: "notify", A: r.Int64N(max64(1, s.Cfg["lz"])), B: r.Int64N(100000)})
		}
	}
	return s
}

func TestC17(t *testing.T) {
	sim.Main(t, &sim.Check{
		ID:    "C17",
		Level: "exploration",
		Rule: "the real aggregation loop runs for 20-220 (thorough up to 500) block intervals of simulated time with block interval 10 ms-10 s, idle/block ratio 0.2-100, per-production durations 0-3x block interval, and notifications at seeded instants (sub-ms offsets) incl. inside productions; oracle on the recorded production start/end times (exact: the clock is simulated). " +
			"distinct = distinct scenario hash; non-trivial = at least 3 productions and (lazy mode) at least one notification",
		Assumptions: []string{"publishBlock is replaced by a recorder through the package's own seam", "the start-up delay is not part of the statement and is not judged"},
		Components:  map[string]string{"block.AggregationLoop / lazyAggregationLoop / normalAggregationLoop / produceBlock / NotifyNewTransactions": "real", "publishBlock": "stub (recorder with simulated duration)", "clock/timers": "synctest fake clock"},
		Gen:         c17Gen,
		Run:         c17Run,
		CfgMin:      map[string]int64{"bt": 10, "lz": 10, "run": 100},
		// the loop's two timers regularly expire at the same instant; which select case runs first is the Go
		// runtime's (unseedable) choice. The oracle holds on every such choice; a replay may need several attempts.
		ReplayAttempts: 25,
		QuickBudget:    25 * time.Second, ThoroughBudget: 8 * time.Minute,
	})
}
