package checks

import (
	"bytes"
	"context"
	"encoding/binary"
	"fmt"
	"math/rand/v2"
	"testing"
	"time"

	"google.golang.org/protobuf/proto"

	"github.com/evstack/ev-node/types"
	pb "github.com/evstack/ev-node/types/pb/evnode/v1"

	"verif/harness/sim"
)

// C06 — every committed block reaches the DA layer in order; the submission watermark is sound.
//
// World: real aggregator (real HeaderSubmissionLoop / DataSubmissionLoop run for windows of simulated
// time, real pending/watermark code, real store) against the simulated DA layer with scripted
// outcomes. The DA call log and the disk are the ground truth.

const (
	hwKey = "/0/m/last-submitted-header-height"
	dwKey = "/0/m/last-submitted-data-height"
)

func rawU64(d *sim.Disk, key string) uint64 {
	v, ok := d.RawGet(key)
	if !ok || len(v) != 8 {
		return 0
	}
	return binary.LittleEndian.Uint64(v)
}

type blobInfo struct {
	kind   int // 0 header, 1 data, 2 junk
	height uint64
	hdr    *types.SignedHeader
	sd     *types.SignedData
}

func decodeBlob(b []byte) blobInfo {
	var hp pb.SignedHeader
	sh := new(types.SignedHeader)
	if err := proto.Unmarshal(b, &hp); err == nil && sh.FromProto(&hp) == nil && sh.ValidateBasic() == nil {
		return blobInfo{kind: 0, height: sh.Height(), hdr: sh}
	}
	var sd types.SignedData
	if err := sd.UnmarshalBinary(b); err == nil && sd.Metadata != nil {
		return blobInfo{kind: 1, height: sd.Height(), sd: &sd}
	}
	return blobInfo{kind: 2}
}

// daLedger is the harness's bookkeeping of what the DA layer accepted from the sequencer node.
type daLedger struct {
	w        *sim.World
	n        *sim.Node
	ih       uint64
	callsPos int
	accH     map[uint64]uint64 // height -> DA height of an accepted header blob
	accD     map[uint64]uint64
	maxHW    uint64 // largest persisted header watermark seen
	maxDW    uint64
	memHW    uint64
	memDW    uint64
	memInc   int
}

func newLedger(w *sim.World, n *sim.Node) *daLedger {
	l := &daLedger{w: w, n: n, ih: w.Genesis.InitialHeight, accH: map[uint64]uint64{}, accD: map[uint64]uint64{}}
	n.DAOf().Probe = func() [2]uint64 { return [2]uint64{rawU64(n.Disk, hwKey), rawU64(n.Disk, dwKey)} }
	return l
}

func (l *daLedger) blockEmpty(h uint64) (bool, error) {
	_, d, err := l.n.Peek().GetBlockData(context.Background(), h)
	if err != nil {
		return false, err
	}
	return len(d.Txs) == 0, nil
}

// scan processes new DA calls; returns a violation description or "".
func (l *daLedger) scan() (oracle, msg string) {
	ctx := context.Background()
	st := l.n.Peek()
	calls := l.n.DAOf().CallsSince(l.callsPos)
	l.callsPos += len(calls)
	for _, c := range calls {
		if c.Op != "submit" || c.By != l.n.Cfg.Name {
			continue
		}
		var infos []blobInfo
		for _, b := range c.Blobs {
			infos = append(infos, decodeBlob(b))
		}
		if len(infos) == 0 {
			continue
		}
		kind := infos[0].kind
		for i, in := range infos {
			if in.kind == 2 {
				return "C06/undecodable-blob-submitted", fmt.Sprintf("call #%d blob %d decodes neither as signed header nor as signed data", c.Seq, i)
			}
			if in.kind != kind {
				return "C06/mixed-submission", fmt.Sprintf("call #%d mixes headers and data", c.Seq)
			}
		}
		first := infos[0].height
		pers := c.Probe[kind]
		if first <= pers {
			return "C06/resubmitted-below-persisted-watermark", fmt.Sprintf("call #%d starts at height %d although the persisted watermark is already %d", c.Seq, first, pers)
		}
		if first < l.ih {
			return "C06/submitted-below-initial-height", fmt.Sprintf("call #%d starts at height %d, initial height %d", c.Seq, first, l.ih)
		}
		// nothing below first may be unaccepted
		for x := l.ih; x < first; x++ {
			if kind == 0 {
				if _, ok := l.accH[x]; !ok {
					return "C06/skipped-unaccepted-header", fmt.Sprintf("call #%d starts at header %d but header %d was never accepted by the DA layer", c.Seq, first, x)
				}
			} else {
				empty, err := l.blockEmpty(x)
				if err == nil && !empty {
					if _, ok := l.accD[x]; !ok {
						return "C06/skipped-unaccepted-data", fmt.Sprintf("call #%d starts at data %d but the data of non-empty block %d was never accepted by the DA layer", c.Seq, first, x)
					}
				}
			}
		}
		for i, in := range infos {
			if i > 0 {
				prev := infos[i-1].height
				if in.height <= prev {
					return "C06/not-in-height-order", fmt.Sprintf("call #%d: height %d follows %d", c.Seq, in.height, prev)
				}
				if kind == 0 && in.height != prev+1 {
					return "C06/header-gap-in-submission", fmt.Sprintf("call #%d: header %d follows %d", c.Seq, in.height, prev)
				}
				if kind == 1 {
					for x := prev + 1; x < in.height; x++ {
						if empty, err := l.blockEmpty(x); err == nil && !empty {
							return "C06/data-gap-in-submission", fmt.Sprintf("call #%d: data %d follows %d but block %d in between is not empty", c.Seq, in.height, prev, x)
						}
					}
				}
			}
			hdr, d, err := st.GetBlockData(ctx, in.height)
			if err != nil {
				return "C06/submitted-uncommitted-height", fmt.Sprintf("call #%d submits height %d which is not a committed block: %v", c.Seq, in.height, err)
			}
			if kind == 0 {
				if !bytes.Equal(in.hdr.Hash(), hdr.Hash()) {
					return "C06/blob-differs-from-committed-header", fmt.Sprintf("call #%d: header blob for height %d is not the committed header", c.Seq, in.height)
				}
				if s := l.w.VerifySignedByProposer(in.hdr); s != "" {
					return "C06/blob-not-signed-by-proposer", fmt.Sprintf("call #%d: %s", c.Seq, s)
				}
			} else {
				if len(in.sd.Txs) == 0 {
					return "C06/empty-data-submitted", fmt.Sprintf("call #%d submits the empty data of height %d", c.Seq, in.height)
				}
				db, _ := in.sd.Data.MarshalBinary()
				cb, _ := d.MarshalBinary()
				if !bytes.Equal(db, cb) {
					return "C06/blob-differs-from-committed-data", fmt.Sprintf("call #%d: data blob for height %d is not the committed data", c.Seq, in.height)
				}
				if in.sd.Signer.PubKey == nil || !in.sd.Signer.PubKey.Equals(l.w.ProposerPub) {
					return "C06/blob-not-signed-by-proposer", fmt.Sprintf("call #%d: signed data %d carries a foreign public key", c.Seq, in.height)
				}
				if ok, err := l.w.ProposerPub.Verify(db, in.sd.Signature); err != nil || !ok {
					return "C06/blob-not-signed-by-proposer", fmt.Sprintf("call #%d: signature of signed data %d does not verify under the proposer's key", c.Seq, in.height)
				}
			}
		}
		for i := 0; i < c.Accepted && i < len(infos); i++ {
			if kind == 0 {
				if _, ok := l.accH[infos[i].height]; !ok {
					l.accH[infos[i].height] = c.Height
				}
			} else {
				if _, ok := l.accD[infos[i].height]; !ok {
					l.accD[infos[i].height] = c.Height
				}
			}
		}
	}
	return "", ""
}

// watermarks checks monotonicity and soundness of the persisted and in-memory watermarks.
func (l *daLedger) watermarks() (oracle, msg string) {
	h := l.n.Height()
	check := func(name string, hw, dw uint64) (string, string) {
		if hw > h || dw > h {
			return "C06/watermark-beyond-chain-height", fmt.Sprintf("%s watermarks header=%d data=%d exceed the chain height %d", name, hw, dw, h)
		}
		for x := l.ih; x <= hw; x++ {
			if _, ok := l.accH[x]; !ok {
				return "C06/watermark-past-unaccepted-header", fmt.Sprintf("%s header watermark is %d but the DA layer never accepted header %d", name, hw, x)
			}
		}
		for x := l.ih; x <= dw; x++ {
			if empty, err := l.blockEmpty(x); err == nil && !empty {
				if _, ok := l.accD[x]; !ok {
					return "C06/watermark-past-unaccepted-data", fmt.Sprintf("%s data watermark is %d but the DA layer never accepted the data of non-empty block %d", name, dw, x)
				}
			}
		}
		return "", ""
	}
	phw, pdw := rawU64(l.n.Disk, hwKey), rawU64(l.n.Disk, dwKey)
	if phw < l.maxHW || pdw < l.maxDW {
		return "C06/watermark-decreased", fmt.Sprintf("persisted watermarks went from header=%d data=%d to header=%d data=%d", l.maxHW, l.maxDW, phw, pdw)
	}
	l.maxHW, l.maxDW = phw, pdw
	if o, m := check("persisted", phw, pdw); o != "" {
		return o, m
	}
	if l.n.Alive {
		mhw, mdw := l.n.M.VerifLastSubmittedHeaderHeight(), l.n.M.VerifLastSubmittedDataHeight()
		if l.memInc == l.n.Incarnation && (mhw < l.memHW || mdw < l.memDW) {
			return "C06/watermark-decreased", fmt.Sprintf("in-memory watermarks went from header=%d data=%d to header=%d data=%d", l.memHW, l.memDW, mhw, mdw)
		}
		l.memInc, l.memHW, l.memDW = l.n.Incarnation, mhw, mdw
		if o, m := check("in-memory", mhw, mdw); o != "" {
			return o, m
		}
	}
	return "", ""
}

// allOnDA reports the first committed height whose header or non-empty data is not accepted yet.
func (l *daLedger) allOnDA() string {
	h := l.n.Height()
	for x := l.ih; x <= h; x++ {
		if _, ok := l.accH[x]; !ok {
			return fmt.Sprintf("header %d", x)
		}
		if empty, err := l.blockEmpty(x); err == nil && !empty {
			if _, ok := l.accD[x]; !ok {
				return fmt.Sprintf("data %d", x)
			}
		}
	}
	return ""
}

func c06Run(t *testing.T, s *sim.Scn) *sim.Outcome {
	o := sim.NewOutcome()
	if p := sim.Bubble(t, func() { c06Body(t, s, o) }); p != nil {
		o.Fail("C06/panic", "", -1, fmt.Sprint(p), "no panic")
	}
	return o
}

func c06Body(t *testing.T, s *sim.Scn, o *sim.Outcome) {
	start := time.Now()
	ih := uint64(max64(1, s.Cfg["ih"]))
	w := sim.NewWorld(t, "c06", ih)
	defer w.Close()
	n := w.AddNode(sim.NodeCfg{Name: "seq", Aggregator: true, MempoolTTL: uint64(max64(1, s.Cfg["ttl"]))})
	r := newAggRun(w, n, o)
	if !r.start(-1, "C06") {
		return
	}
	l := newLedger(w, n)
	w.DA.AutoAdvance = true
	faults := 0
	afterOp := func(i int, what string) bool {
		if oracle, msg := l.scan(); oracle != "" {
			o.Fail(oracle, "", i, what+": "+msg, "submissions are in order, complete, exact and signed")
			return false
		}
		if oracle, msg := l.watermarks(); oracle != "" {
			o.Fail(oracle, "", i, what+": "+msg, "watermark is monotone and never passes an unaccepted height")
			return false
		}
		return true
	}
	for i, op := range s.Ops {
		k := -1
		if op.S == "c" {
			k = int(op.C >> 8)
		}
		if op.K == "da" && op.A%12 != 0 {
			faults++
		}
		op2 := op
		op2.S = ""
		f, err := r.exec(op2, k)
		if f || !n.Alive {
			w.DA.SubmitScript = nil // what was scripted for the dead incarnation's attempts is void
			if !r.start(i, "C06") {
				return
			}
			o.Count("restarts-between-attempts", 1)
		} else if err != nil && op.K == "produce" {
			_ = n.StopClean()
			if !r.start(i, "C06") {
				return
			}
		}
		if !afterOp(i, op.String()) {
			return
		}
		o.States = append(o.States, fmt.Sprintf("%s acc=%d/%d", n.AbstractState(), len(l.accH), len(l.accD)))
		o.Logf("%d %s %s", i, op, n.AbstractState())
	}
	for k, v := range w.DA.Stats {
		o.Count("da:"+k, v)
	}
	// faults stop: the DA layer accepts everything from now on
	w.DA.SubmitScript = nil
	pending := int(n.Height()) + 3
	for j := 0; j < pending && l.allOnDA() != ""; j++ {
		r.exec(sim.Op{K: "subh", A: 0}, -1)
		r.exec(sim.Op{K: "subd", A: 0}, -1)
		if !n.Alive {
			if !r.start(len(s.Ops)+j, "C06") {
				return
			}
		}
		if !afterOp(len(s.Ops)+j, "recovery submission round") {
			return
		}
	}
	if missing := l.allOnDA(); missing != "" {
		class := "ih=1"
		if ih > 1 {
			class = "ih>1"
		}
		o.Fail("C06/not-submitted-after-faults-stop", "C06/not-submitted-after-faults-stop/"+class, len(s.Ops),
			fmt.Sprintf("DA accepts everything, %d submission rounds ran, but %s (chain height %d, initial height %d) was never accepted; watermarks header=%d data=%d", pending, missing, n.Height(), ih, rawU64(n.Disk, hwKey), rawU64(n.Disk, dwKey)),
			"everything committed reaches the DA layer once faults stop")
		return
	}
	o.SimTime = time.Since(start)
	o.NonTrivial = n.Height() >= ih+1 && (faults > 0 || o.Counters["restarts-between-attempts"] > 0)
}

func c06Gen(r *rand.Rand, tier string) *sim.Scn {
	s := &sim.Scn{Cfg: map[string]int64{"ih": 1, "ttl": 1 + r.Int64N(3)}}
	if r.IntN(4) == 0 {
		s.Cfg["ih"] = 2 + r.Int64N(49)
	}
	n := 8 + r.IntN(40)
	if tier == "thorough" && r.IntN(3) == 0 {
		n = 40 + r.IntN(120)
	}
	pFault := r.IntN(60)
	pEmpty := r.IntN(80)
	enabled := make([]bool, 12)
	for i := range enabled {
		enabled[i] = r.IntN(2) == 0
	}
	for i := 0; i < n; i++ {
		switch x := r.IntN(100); {
		case x < 35:
			s.Ops = append(s.Ops, sim.Op{K: "sleep", A: 1000})
			if r.IntN(100) >= pEmpty {
				s.Ops = append(s.Ops, sim.Op{K: "tx", A: r.Int64N(4)}, sim.Op{K: "reap"})
			}
			s.Ops = append(s.Ops, sim.Op{K: "produce"})
		case x < 70:
			if r.IntN(100) < pFault {
				k := r.Int64N(12)
				if enabled[k] {
					s.Ops = append(s.Ops, sim.Op{K: "da", A: k, B: r.Int64N(5), C: r.Int64N(2)})
				}
			}
			op := sim.Op{K: []string{"subh", "subd"}[r.IntN(2)], A: r.Int64N(3)}
			if r.IntN(10) == 0 {
				op.A = 90
			}
			if r.IntN(8) == 0 {
				op.S = "c"
				op.C = r.Int64N(3) << 8
			}
			s.Ops = append(s.Ops, op)
		case x < 80:
			s.Ops = append(s.Ops, sim.Op{K: "da", A: r.Int64N(12), B: r.Int64N(5), C: r.Int64N(2)})
		case x < 90:
			s.Ops = append(s.Ops, sim.Op{K: "include"})
		case x < 95:
			s.Ops = append(s.Ops, sim.Op{K: "stop"})
		default:
			s.Ops = append(s.Ops, sim.Op{K: "kill"})
		}
	}
	return s
}

func TestC06(t *testing.T) {
	sim.Main(t, &sim.Check{
		ID:    "C06",
		Level: "exploration",
		Rule: "seeded histories of block production (empty/non-empty mix, initial height 1..50), scripted DA submit outcomes (accept, prefix, timed out, already in mempool, too big, deadline, generic, acknowledgement lost, blocking until cancelled, sequence error, node dies before/after the DA stored the blobs), runs of the real header/data submission loops for 1-3 or 200 DA block times, " +
			"clean restarts, kills, and crashes cutting the watermark write; then the DA accepts everything and submission must complete. distinct = distinct scenario hash; non-trivial = at least 2 blocks committed and at least one DA fault or restart between attempts executed",
		Assumptions: []string{"a submission loop cancelled at the end of its window is equivalent to one that gave up early (the loops keep no state between iterations)", "simulated DA; the ground truth is its call log"},
		Components:  map[string]string{"block.HeaderSubmissionLoop/DataSubmissionLoop/submitToDA/pending*": "real", "types.SubmitWithHelpers": "real", "pkg/store": "real", "DA": "stub (SimDA with scripted outcomes)", "executor": "stub (SimExec)", "datastore": "stub (SimDatastore)"},
		Gen:         c06Gen,
		Run:         c06Run,
		CfgMin:      map[string]int64{"ih": 1, "ttl": 1},
		QuickBudget: 30 * time.Second, ThoroughBudget: 12 * time.Minute,
	})
}
