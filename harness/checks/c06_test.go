package checks

import (
	"fmt"
	"math/rand/v2"
	"testing"
	"time"

	"verif/harness/sim"
)

// C06 — every committed block reaches the DA layer in order; the submission watermark is sound.
//
// World: real aggregator (real HeaderSubmissionLoop / DataSubmissionLoop run for windows of simulated
// time, real pending/watermark code, real store) against the simulated DA layer with scripted
// outcomes. The DA call log and the disk are the ground truth.

func c06Run(t *testing.T, s *sim.Scn) *sim.Outcome {
	o := sim.NewOutcome()
	if p := sim.Bubble(t, func() { c06Body(t, s, o) }); p != nil {
		o.Fail("C06/panic", "", -1, fmt.Sprint(p), "no panic")
	}
	return o
}

func c06Body(t *testing.T, s *sim.Scn, o *sim.Outcome) {
	start := time.Now()
	ih := uint64(max64(1, s.Cfg["ih"]))
	w := sim.NewWorld(t, "c06", ih)
	defer w.Close()
	n := w.AddNode(sim.NodeCfg{Name: "seq", Aggregator: true, MempoolTTL: uint64(max64(1, s.Cfg["ttl"]))})
	r := newAggRun(w, n, o)
	if !r.start(-1, "C06") {
		return
	}
	l := sim.NewLedger(w, n)
	w.DA.AutoAdvance = true
	faults := 0
	afterOp := func(i int, what string) bool {
		if oracle, msg := l.Scan(); oracle != "" {
			o.Fail(oracle, "", i, what+": "+msg, "submissions are in order, complete, exact and signed")
			return false
		}
		if oracle, msg := l.Watermarks(); oracle != "" {
			o.Fail(oracle, "", i, what+": "+msg, "watermark is monotone and never passes an unaccepted height")
			return false
		}
		return true
	}
	for i, op := range s.Ops {
		k := -1
		if op.S == "c" {
			k = int(op.C >> 8)
		}
		if op.K == "da" && op.A%12 != 0 {
			faults++
		}
		op2 := op
		op2.S = ""
		f, err := r.exec(op2, k)
		if f || !n.Alive {
			w.DA.SubmitScript = nil // what was scripted for the dead incarnation's attempts is void
			if !r.start(i, "C06") {
				return
			}
			o.Count("restarts-between-attempts", 1)
		} else if err != nil && op.K == "produce" {
			_ = n.StopClean()
			if !r.start(i, "C06") {
				return
			}
		}
		if !afterOp(i, op.String()) {
			return
		}
		o.States = append(o.States, fmt.Sprintf("%s acc=%d/%d", n.AbstractState(), len(l.AccH), len(l.AccD)))
		o.Logf("%d %s %s", i, op, n.AbstractState())
	}
	for k, v := range w.DA.Stats {
		o.Count("da:"+k, v)
	}
	// faults stop: the DA layer accepts everything from now on
	w.DA.SubmitScript = nil
	pending := int(n.Height()) + 3
	for j := 0; j < pending && l.AllOnDA() != ""; j++ {
		r.exec(sim.Op{K: "subh", A: 0}, -1)
		r.exec(sim.Op{K: "subd", A: 0}, -1)
		if !n.Alive {
			if !r.start(len(s.Ops)+j, "C06") {
				return
			}
		}
		if !afterOp(len(s.Ops)+j, "recovery submission round") {
			return
		}
	}
	if missing := l.AllOnDA(); missing != "" {
		class := "ih=1"
		if ih > 1 {
			class = "ih>1"
		}
		o.Fail("C06/not-submitted-after-faults-stop", "C06/not-submitted-after-faults-stop/"+class, len(s.Ops),
			fmt.Sprintf("DA accepts everything, %d submission rounds ran, but %s (chain height %d, initial height %d) was never accepted; watermarks header=%d data=%d", pending, missing, n.Height(), ih, sim.RawU64(n.Disk, sim.HWKey), sim.RawU64(n.Disk, sim.DWKey)),
			"everything committed reaches the DA layer once faults stop")
		return
	}
	o.SimTime = time.Since(start)
	o.NonTrivial = n.Height() >= ih+1 && (faults > 0 || o.Counters["restarts-between-attempts"] > 0)
}

func c06Gen(r *rand.Rand, tier string) *sim.Scn {
	s := &sim.Scn{Cfg: map[string]int64{"ih": 1, "ttl": 1 + r.Int64N(3)}}
	if r.IntN(4) == 0 {
		s.Cfg["ih"] = 2 + r.Int64N(49)
	}
	n := 8 + r.IntN(40)
	if tier == "thorough" && r.IntN(3) == 0 {
		n = 40 + r.IntN(120)
	}
	pFault := r.IntN(60)
	pEmpty := r.IntN(80)
	enabled := make([]bool, 12)
	for i := range enabled {
		enabled[i] = r.IntN(2) == 0
	}
	for i := 0; i < n; i++ {
		switch x := r.IntN(100); {
		case x < 35:
			s.Ops = append(s.Ops, sim.Op{K: "sleep", A: 1000})
			if r.IntN(100) >= pEmpty {
				if r.IntN(8) == 0 {
					s.Ops = append(s.Ops, sim.Op{K: "same", A: r.Int64N(2)})
				} else {
					s.Ops = append(s.Ops, sim.Op{K: "tx", A: r.Int64N(4)}, sim.Op{K: "reap"})
				}
			}
			s.Ops = append(s.Ops, sim.Op{K: "produce"})
		case x < 70:
			if r.IntN(100) < pFault {
				k := r.Int64N(12)
				if enabled[k] {
					s.Ops = append(s.Ops, sim.Op{K: "da", A: k, B: r.Int64N(5), C: r.Int64N(2)})
				}
			}
			op := sim.Op{K: []string{"subh", "subd"}[r.IntN(2)], A: r.Int64N(3)}
			if r.IntN(10) == 0 {
				op.A = 90
			}
			if r.IntN(8) == 0 {
				op.S = "c"
				op.C = r.Int64N(3) << 8
			}
			s.Ops = append(s.Ops, op)
		case x < 80:
			s.Ops = append(s.Ops, sim.Op{K: "da", A: r.Int64N(14), B: r.Int64N(5), C: r.Int64N(2)})
		case x < 90:
			s.Ops = append(s.Ops, sim.Op{K: "include"})
		case x < 95:
			s.Ops = append(s.Ops, sim.Op{K: "stop"})
		default:
			s.Ops = append(s.Ops, sim.Op{K: "kill"})
		}
	}
	return s
}

func TestC06(t *testing.T) {
	sim.Main(t, &sim.Check{
		ID:    "C06",
		Level: "exploration",
		Rule: "seeded histories of block production (empty/non-empty mix, initial height 1..50), scripted DA submit outcomes (accept, prefix, timed out, already in mempool, too big, deadline, generic, acknowledgement lost, blocking until cancelled, sequence error, node dies before/after the DA stored the blobs), runs of the real header/data submission loops for 1-3 or 200 DA block times, " +
			"clean restarts, kills, and crashes cutting the watermark write; then the DA accepts everything and submission must complete. distinct = distinct scenario hash; non-trivial = at least 2 blocks committed and at least one DA fault or restart between attempts executed",
		Assumptions: []string{"a submission loop cancelled at the end of its window is equivalent to one that gave up early (the loops keep no state between iterations)", "simulated DA; the ground truth is its call log"},
		Components:  map[string]string{"block.HeaderSubmissionLoop/DataSubmissionLoop/submitToDA/pending*": "real", "types.SubmitWithHelpers": "real", "pkg/store": "real", "DA": "stub (SimDA with scripted outcomes)", "executor": "stub (SimExec)", "datastore": "stub (SimDatastore)"},
		Gen:         c06Gen,
		Run:         c06Run,
		CfgMin:      map[string]int64{"ih": 1, "ttl": 1},
		QuickBudget: 30 * time.Second, ThoroughBudget: 12 * time.Minute,
	})
}
