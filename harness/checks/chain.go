package checks

import (
	"context"
	"fmt"
	"time"

	"google.golang.org/protobuf/proto"

	coresequencer "github.com/evstack/ev-node/core/sequencer"
	"github.com/evstack/ev-node/types"
	pb "github.com/evstack/ev-node/types/pb/evnode/v1"

	"verif/harness/sim"
)

// pBlock is one block of the proposer's chain together with its DA blobs, all produced by the real
// aggregator code (block production, signing, submission encodings).
type pBlock struct {
	H      uint64
	Header *types.SignedHeader
	Data   *types.Data
	HBlob  []byte // header blob as submitted to DA
	DBlob  []byte // signed-data blob as submitted to DA (nil for empty blocks)
	Empty  bool
}

// buildChain lets a real aggregator produce len(spec) blocks after the (always empty) first block.
// spec[i]: 0 = empty block, 1..3 = that many unique transactions, 9 = the fixed list ["same=1"] (identical
// lists in different blocks), 8 = a fixed two-transaction list. Blobs are obtained by real submission to a
// private DA layer. It returns blocks indexed from the initial height.
func buildChain(w *sim.World, spec []int64) ([]pBlock, []byte, error) {
	private := sim.NewSimDA()
	private.AutoAdvance = true
	a := w.AddNode(sim.NodeCfg{Name: "proposer", Aggregator: true, DA: private})
	if err := a.StartNode(); err != nil {
		return nil, nil, err
	}
	genesisRoot := a.M.GetLastState().AppHash
	ctx := context.Background()
	time.Sleep(time.Second)
	if err := a.Produce(); err != nil {
		return nil, nil, fmt.Errorf("first block: %w", err)
	}
	txn := 0
	for i, v := range spec {
		var txs [][]byte
		switch {
		case v == 9:
			txs = [][]byte{[]byte("same=1")}
		case v == 8:
			txs = [][]byte{[]byte("same=1"), []byte("same=2")}
		case v > 0:
			for j := int64(0); j < v%4; j++ {
				txn++
				txs = append(txs, []byte(fmt.Sprintf("k%d=b%d", txn, i)))
			}
		}
		if len(txs) > 0 {
			if _, err := a.Seq.SubmitBatchTxs(ctx, coresequencer.SubmitBatchTxsRequest{Id: []byte(w.Genesis.ChainID), Batch: &coresequencer.Batch{Transactions: txs}}); err != nil {
				return nil, nil, err
			}
		}
		time.Sleep(time.Second)
		if err := a.Produce(); err != nil {
			return nil, nil, fmt.Errorf("block %d: %w", i, err)
		}
	}
	for k := 0; k < 3; k++ {
		if _, err := a.SubmitHeaders(); err != nil {
			return nil, nil, err
		}
		if _, err := a.SubmitData(); err != nil {
			return nil, nil, err
		}
	}
	ih := w.Genesis.InitialHeight
	top := a.Height()
	blocks := make([]pBlock, 0, top-ih+1)
	st := a.Peek()
	for h := ih; h <= top; h++ {
		hdr, d, err := st.GetBlockData(ctx, h)
		if err != nil {
			return nil, nil, err
		}
		blocks = append(blocks, pBlock{H: h, Header: hdr, Data: d, Empty: len(d.Txs) == 0})
	}
	for _, b := range private.AllBlobs() {
		var hp pb.SignedHeader
		sh := new(types.SignedHeader)
		if err := proto.Unmarshal(b.Data, &hp); err == nil && sh.FromProto(&hp) == nil && w.ValidHeader(sh) && sh.Height() >= ih && sh.Height() <= top {
			blocks[sh.Height()-ih].HBlob = b.Data
			continue
		}
		var sd types.SignedData
		if err := sd.UnmarshalBinary(b.Data); err == nil && sd.Metadata != nil && sd.Height() >= ih && sd.Height() <= top {
			blocks[sd.Height()-ih].DBlob = b.Data
			continue
		}
		return nil, nil, fmt.Errorf("proposer submitted a blob that is neither header nor signed data")
	}
	for _, b := range blocks {
		if b.HBlob == nil || (!b.Empty && b.DBlob == nil) {
			return nil, nil, fmt.Errorf("proposer did not submit all blobs for height %d", b.H)
		}
	}
	a.Crash() // the proposer is not needed any more
	return blocks, genesisRoot, nil
}
