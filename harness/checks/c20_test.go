package checks

import (
	"context"
	"fmt"
	"math/rand/v2"
	"strings"
	"testing"
	"time"

	logging "github.com/ipfs/go-log/v2"

	coresequencer "github.com/evstack/ev-node/core/sequencer"
	"github.com/evstack/ev-node/sequencers/based"

	"verif/harness/sim"
)

// C20 — based sequencer: DA-ordered, size-bounded, restart-safe batches.
//
// World: the real based.Sequencer over the simulated disk and the simulated DA layer holding
// transaction blobs. The harness plays the block manager: it calls GetNextBatch with the BatchData of
// the previous non-empty answer and a seeded MaxBytes, restarts the sequencer (new object on the
// durable image) between calls, lets DA heights appear over time and injects retrieval errors.
//
// ops: txs(A=count 0..6, B=size class)   the next DA height gets that many transaction blobs
//      grow(A)                            A%3 more of the prepared DA heights become readable
//      next(A=maxbytes class)             one GetNextBatch call
//      err(A=height off,B=kind)           one scripted retrieval failure for a height
//      restart                            new sequencer object on the durable image

func c20Run(t *testing.T, s *sim.Scn) *sim.Outcome {
	o := sim.NewOutcome()
	if p := sim.Bubble(t, func() { c20Body(t, s, o) }); p != nil {
		o.Fail("C20/panic", "", -1, fmt.Sprint(p), "no panic")
	}
	return o
}

func c20Body(t *testing.T, s *sim.Scn, o *sim.Outcome) {
	startT := time.Now()
	ctx := context.Background()
	sim.QuietLogs()
	logger := logging.Logger("verif")
	da := sim.NewSimDA()
	da.CommitmentIDs = s.Cfg["dups"] == 1
	disk := sim.NewDisk(nil)
	id := []byte("c20")
	startH := uint64(1 + s.Cfg["start"]%3)
	drift := uint64(1 + s.Cfg["drift"]%4)
	nodeDA := da.For("based", disk.Fence())
	open := func() (*based.Sequencer, error) {
		return based.NewSequencer(logger, da.For("based", disk.Fence()), id, startH, drift, disk.Open())
	}
	_ = nodeDA
	seq, err := open()
	if err != nil {
		o.Fail("C20/cannot-open", "", -1, err.Error(), "opens")
		return
	}
	// the DA contents are fixed up front: heights are immutable once readable
	var order [][]byte // every transaction in DA order
	h := startH
	txn := 0
	for _, op := range s.Ops {
		if op.K != "txs" {
			continue
		}
		cnt := int(op.A % 7)
		for j := 0; j < cnt; j++ {
			txn++
			if s.Cfg["dups"] == 1 && j > 0 && (op.B+int64(j))%3 == 0 {
				txn-- // the same blob once more in this height (with commitment-style ids the two share an id)
				o.Count("duplicate-blobs-in-one-height", 1)
			}
			size := []int{1, 10, 40, 120, 200}[int(op.B+int64(j))%5]
			if s.Cfg["big"] == 1 {
				size = []int{700000, 300000, 40}[int(op.B+int64(j))%3] // a DA height worth several default-size batches
			}
			if s.Cfg["dups"] == 1 {
				size = []int{10, 40, 120}[int(op.B)%3] // copies must be byte-identical: one size per height
			}
			tx := []byte(fmt.Sprintf("t%04d:", txn))
			for len(tx) < size {
				tx = append(tx, 'x')
			}
			if size < len(tx) {
				tx = tx[:6]
			}
			da.Plant(h, tx, "user")
			order = append(order, tx)
		}
		h++
	}
	lastContent := h - 1
	for _, op := range s.Ops {
		if op.K == "err" {
			hh := startH + uint64(op.A)%uint64(max64(1, int64(lastContent-startH+1)))
			da.ReadScript[hh] = append(da.ReadScript[hh], sim.ReadOutcome{Kind: []sim.ReadKind{sim.ReadListErr, sim.ReadChunkErr}[op.B%2], Flavor: int(op.B>>1) % 4}) // flavours 0-3 (no hanging call: this caller sets no deadline)
		}
	}
	da.SetCur(startH - 1)
	released := 0 // number of transactions of `order` released so far
	var lastData [][]byte
	restarts, calls := 0, 0
	limits := []uint64{4, 12, 45, 130, 450, 0}
	if s.Cfg["big"] == 1 {
		limits = []uint64{0, 800000, 1000000, 2000000, 0, 0}
	}
	call := func(step int, class int64, what string) bool {
		maxBytes := limits[int(class)%len(limits)]
		res, err := seq.GetNextBatch(ctx, coresequencer.GetNextBatchRequest{Id: id, LastBatchData: lastData, MaxBytes: maxBytes})
		calls++
		if err != nil {
			// the statement does not say whether a call may fail while the DA layer fails; it does say that nothing is
			// dropped or reordered: a failed call has released nothing, the sequence must continue where it was
			pending := false
			for _, sc := range da.ReadScript {
				if len(sc) > 0 {
					pending = true
				}
			}
			if pending || strings.Contains(err.Error(), "sim: rpc error") {
				o.Count("calls-failed-while-da-retrieval-fails", 1)
				o.Logf("%d %s max=%d -> error %v", step, what, maxBytes, err)
				return true
			}
			o.Fail("C20/next-batch-error", "", step, fmt.Sprintf("%s: %v", what, err), "no error with a healthy DA layer")
			return false
		}
		if res == nil || res.Batch == nil || len(res.Batch.Transactions) == 0 {
			o.Logf("%d %s max=%d -> empty", step, what, maxBytes)
			return true
		}
		eff := maxBytes
		if eff == 0 {
			eff = based.DefaultMaxBlobSize
		}
		var size uint64
		for _, tx := range res.Batch.Transactions {
			size += uint64(len(tx))
		}
		if size > eff {
			o.Fail("C20/batch-exceeds-requested-size", "", step, fmt.Sprintf("%s: batch of %d bytes for MaxBytes %d", what, size, eff), "never larger than the requested size")
			return false
		}
		for j, tx := range res.Batch.Transactions {
			if released+j >= len(order) || string(order[released+j]) != string(tx) {
				// classify
				class := "unknown-transaction"
				for k, x := range order {
					if string(x) == string(tx) {
						if k < released+j {
							class = "transaction-released-twice"
						} else {
							class = "transaction-skipped-or-reordered"
						}
					}
				}
				after := ""
				if restarts > 0 {
					after = "/after-restart"
				}
				exp := "<nothing left>"
				if released+j < len(order) {
					exp = string(order[released+j][:6])
				}
				o.Fail("C20/not-da-order", "C20/not-da-order/"+class+after, step,
					fmt.Sprintf("%s: position %d of the batch is %s but the next transaction in DA order is %s (%d released so far)", what, j, string(tx[:6]), exp, released),
					"transactions are released in DA order (height, then position), each exactly once, none dropped")
				return false
			}
		}
		if len(res.BatchData) != len(res.Batch.Transactions) {
			o.Fail("C20/batch-data-mismatch", "", step, fmt.Sprintf("%d ids for %d transactions", len(res.BatchData), len(res.Batch.Transactions)), "one id per transaction")
			return false
		}
		released += len(res.Batch.Transactions)
		lastData = res.BatchData
		o.Logf("%d %s max=%d -> %d txs (released %d/%d)", step, what, maxBytes, len(res.Batch.Transactions), released, len(order))
		return true
	}
	for i, op := range s.Ops {
		switch op.K {
		case "grow":
			da.SetCur(min64u(lastContent+1, da.Cur()+uint64(op.A%3)))
		case "next":
			if !call(i, op.A, "next") {
				return
			}
		case "restart":
			restarts++
			disk.Fence().Kill()
			if seq, err = open(); err != nil {
				o.Fail("C20/cannot-reopen", "", i, err.Error(), "reopens on its own durable state")
				return
			}
			if op.A%2 == 1 {
				lastData = nil // the caller restarted too and lost its cursor (it starts with an empty one)
			}
		}
		o.States = append(o.States, fmt.Sprintf("rel=%d cur=%d", released, da.Cur()))
	}
	for k, v := range da.Stats {
		o.Count("da:"+k, v)
	}
	o.Count("restarts", restarts)
	// errors stop, every height exists: with a generous limit everything must be released within a budget of calls
	da.ReadScript = map[uint64][]sim.ReadOutcome{}
	da.SetCur(lastContent + 2)
	budget := 6 + int(lastContent-startH+1)
	if s.Cfg["big"] == 1 {
		budget += len(order) // a default-size batch holds two of the big transactions at most
	}
	for j := 0; j < budget && released < len(order); j++ {
		if !call(len(s.Ops)+j, 5, "drain next") {
			return
		}
	}
	if released < len(order) {
		class := "never-restarted"
		if restarts > 0 {
			class = "after-restart"
		}
		o.Fail("C20/transactions-never-released", "C20/transactions-never-released/"+class, len(s.Ops),
			fmt.Sprintf("%d of %d transactions on the DA layer were released after %d further calls with a healthy DA and the default size limit; next missing: %s", released, len(order), budget, strings.TrimRight(string(order[released][:6]), "x")),
			"every transaction on the DA layer is released, in order")
		return
	}
	o.SimTime = time.Since(startT)
	o.NonTrivial = len(order) >= 3 && calls >= 3
}

func c20Gen(r *rand.Rand, tier string) *sim.Scn {
	s := &sim.Scn{Cfg: map[string]int64{"start": r.Int64N(3), "drift": r.Int64N(4), "dups": int64(r.IntN(4) / 3)}}
	if r.IntN(25) == 0 {
		s.Cfg["big"], s.Cfg["dups"] = 1, 0
	}
	nh := 1 + r.IntN(8)
	if s.Cfg["big"] == 1 {
		nh = 1 + r.IntN(3)
	}
	for i := 0; i < nh; i++ {
		cnt := r.Int64N(7)
		if r.IntN(4) == 0 {
			cnt = 0
		}
		s.Ops = append(s.Ops, sim.Op{K: "txs", A: cnt, B: r.Int64N(5)})
	}
	m := 3 + r.IntN(30)
	pErr := r.IntN(20)
	pRestart := r.IntN(20)
	for i := 0; i < m; i++ {
		switch x := r.IntN(100); {
		case x < 25:
			s.Ops = append(s.Ops, sim.Op{K: "grow", A: r.Int64N(3)})
		case x < 25+pErr:
			s.Ops = append(s.Ops, sim.Op{K: "err", A: r.Int64N(8), B: r.Int64N(8)})
		case x < 45+pErr+pRestart/2:
			s.Ops = append(s.Ops, sim.Op{K: "restart", A: r.Int64N(2)})
		default:
			s.Ops = append(s.Ops, sim.Op{K: "next", A: r.Int64N(6)})
		}
	}
	return s
}

func TestC20(t *testing.T) {
	sim.Main(t, &sim.Check{
		ID:    "C20",
		Level: "exploration",
		Rule: "seeded DA contents (1-8 heights from a start height 1-3, 0-6 transaction blobs each of 1-200 bytes, empty heights), heights becoming readable over time, GetNextBatch calls with MaxBytes from {4,12,45,130,450,default}, scripted retrieval failures, restarts of the sequencer (with and without the caller losing its cursor), max height drift 1-4; " +
			"then a healthy DA and the default limit. distinct = distinct scenario hash; non-trivial = at least 3 transactions on DA and at least 3 calls",
		Assumptions: []string{"the harness plays the block manager: LastBatchData is the BatchData of the previous non-empty answer", "DA heights are immutable once readable"},
		Components:  map[string]string{"sequencers/based (Sequencer, PersistentPendingTxs)": "real", "types.RetrieveWithHelpers": "real", "DA": "stub (SimDA)", "datastore": "stub (SimDatastore)"},
		Gen:         c20Gen,
		Run:         c20Run,
		QuickBudget: 20 * time.Second, ThoroughBudget: 8 * time.Minute,
	})
}
