package checks

import (
	"bytes"
	"context"
	"fmt"
	"math/rand/v2"
	"strings"
	"testing"
	"time"

	"github.com/evstack/ev-node/types"

	"verif/harness/sim"
)

// C02 — a full node converges to exactly the proposer's chain under any delivery order.
//
// World: a real aggregator produces the chain (spec in cfg/ops), a real follower (RetrieveLoop, P2P
// store loops, SyncLoop, caches, store) receives the parts. The scenario decides, per part, the DA
// height its blob is planted at, when the P2P stores advance, the order (any permutation) and
// duplication of event deliveries to the sync loop, and clean stop/start points.
//
// ops:  spec(A=v)                one more block in the chain (see buildChain)
//       plant(A=block,B=kind,C=offset)  put header(0)/data(1) blob of block A on DA at cursor+offset
//       retrieve                 DA scan until idle (events go to the FIFOs)
//       p2p(A=headers,B=data)    raise the P2P store heights by A / B and poll
//       deliver(A=fifo,B=index)  hand one queued event to the sync loop (any index = any permutation)
//       dup(A=fifo,B=index)      same, but keep the event queued (duplicate delivery)
//       restart                  clean stop (caches saved) and start

type followerWorld struct {
	w       *sim.World
	f       *sim.Node
	blocks  []pBlock
	o       *sim.Outcome
	planted map[string]bool
	hP2P    uint64
	dP2P    uint64
	maxDA   uint64
	// per-incarnation delivered sets (for the exact intermediate expectation)
	hDeliv, dDeliv map[uint64]bool
	restarts       int
	execSeen       int
	lastExecH      uint64
	id             string
}

func cloneHeader(h *types.SignedHeader) *types.SignedHeader { return sim.CloneHeader(h) }

func cloneData(d *types.Data) *types.Data { return sim.CloneData(d) }

func (fw *followerWorld) top() uint64 { return fw.blocks[len(fw.blocks)-1].H }

func (fw *followerWorld) fillP2P() {
	for _, b := range fw.blocks {
		fw.f.HStore.Put(b.H, cloneHeader(b.Header))
		fw.f.DStore.Put(b.H, cloneData(b.Data))
	}
}

func (fw *followerWorld) plant(bi int, kind int64, off uint64) {
	b := fw.blocks[bi]
	key := fmt.Sprintf("%d/%d", bi, kind)
	blob := b.HBlob
	if kind == 1 {
		blob = b.DBlob
	}
	if blob == nil {
		return
	}
	cursor := uint64(1)
	if fw.f.Alive {
		cursor = fw.f.M.VerifDAHeight()
	}
	if c := fw.w.DA.Cur() + 1; c > cursor {
		cursor = c // heights that already exist are immutable
	}
	h := cursor + off
	fw.w.DA.Plant(h, blob, "proposer")
	fw.planted[key] = true
	if h > fw.maxDA {
		fw.maxDA = h
	}
}

// expected returns the largest h such that both parts of all blocks up to h were delivered in this incarnation.
func (fw *followerWorld) expected(base uint64) uint64 {
	e := base
	for _, b := range fw.blocks {
		if b.H <= base {
			continue
		}
		if b.H != e+1 || !fw.hDeliv[b.H] || (!b.Empty && !fw.dDeliv[b.H]) {
			break
		}
		e = b.H
	}
	return e
}

// checkPrefix verifies that the follower's applied prefix is the proposer's chain and that execution
// happened in height order.
func (fw *followerWorld) checkPrefix(step int, what string) bool {
	ctx := context.Background()
	st := fw.f.Peek()
	h := fw.f.Height()
	ih := fw.blocks[0].H
	for x := ih; x <= h; x++ {
		if x > fw.top() {
			fw.o.Fail(fw.id+"/height-beyond-proposer", "", step, fmt.Sprintf("%s: follower height %d exceeds the proposer's %d", what, h, fw.top()), "at most the proposer's height")
			return false
		}
		hdr, d, err := st.GetBlockData(ctx, x)
		if err != nil {
			fw.o.Fail(fw.id+"/gap-in-chain", "", step, fmt.Sprintf("%s: chain height %d but height %d has no block: %v", what, h, x, err), "no height is skipped")
			return false
		}
		pbk := fw.blocks[x-ih]
		if !bytes.Equal(hdr.Hash(), pbk.Header.Hash()) {
			fw.o.Fail(fw.id+"/diverged-header", "", step, fmt.Sprintf("%s: height %d: header hash %x, proposer's %x", what, x, []byte(hdr.Hash())[:6], []byte(pbk.Header.Hash())[:6]), "identical header hashes")
			return false
		}
		if !sim.TxsEqual(d, txBytesOf(pbk.Data)) {
			fw.o.Fail(fw.id+"/diverged-txs", "", step, fmt.Sprintf("%s: height %d: transaction list differs from the proposer's", what, x), "identical transaction lists")
			return false
		}
	}
	if h >= ih {
		s, err := st.GetState(ctx)
		if err == nil && s.LastBlockHeight == h {
			pbk := fw.blocks[h-ih]
			want := sim.Root(pbk.Header.AppHash, h, txBytesOf(pbk.Data))
			if !bytes.Equal(s.AppHash, want) {
				fw.o.Fail(fw.id+"/diverged-state-root", "", step, fmt.Sprintf("%s: state root after height %d differs from the proposer's", what, h), "identical application state roots")
				return false
			}
		}
	}
	calls := fw.f.Exec.ExecCalls()
	for _, c := range calls[fw.execSeen:] {
		if c.Height != fw.lastExecH+1 && !(fw.restarts > 0 && c.Height <= fw.lastExecH+1) {
			fw.o.Fail(fw.id+"/applied-out-of-order", "", step, fmt.Sprintf("%s: execution layer asked for height %d after %d", what, c.Height, fw.lastExecH), "blocks applied strictly in height order")
			return false
		}
		if c.Height >= ih && c.Height <= fw.top() && !sameTxs(c.Txs, txBytesOf(fw.blocks[c.Height-ih].Data)) {
			fw.o.Fail(fw.id+"/executed-foreign-txs", "", step, fmt.Sprintf("%s: execution layer got other transactions than the proposer's for height %d", what, c.Height), "the proposer's transactions")
			return false
		}
		if c.Height > fw.lastExecH {
			fw.lastExecH = c.Height
		}
	}
	fw.execSeen = len(calls)
	return true
}

func txBytesOf(d *types.Data) [][]byte {
	out := make([][]byte, len(d.Txs))
	for i, tx := range d.Txs {
		out[i] = tx
	}
	return out
}

// deliver hands FIFO event (fifo, idx) to the sync loop; keep=true leaves it queued (duplicate).
func (fw *followerWorld) deliver(step int, fifo, idx int64, keep bool) bool {
	f := fw.f
	hb := f.Height()
	var err error
	var what string
	if fifo%2 == 0 {
		if len(f.HeaderFIFO) == 0 {
			return true
		}
		i := int(idx % int64(len(f.HeaderFIFO)))
		e := f.HeaderFIFO[i]
		if !keep {
			f.HeaderFIFO = append(f.HeaderFIFO[:i:i], f.HeaderFIFO[i+1:]...)
		}
		fw.hDeliv[e.Header.Height()] = true
		what = fmt.Sprintf("deliver header %d", e.Header.Height())
		err = f.DeliverHeader(e)
	} else {
		if len(f.DataFIFO) == 0 {
			return true
		}
		i := int(idx % int64(len(f.DataFIFO)))
		e := f.DataFIFO[i]
		if !keep {
			f.DataFIFO = append(f.DataFIFO[:i:i], f.DataFIFO[i+1:]...)
		}
		if e.Data.Metadata != nil {
			fw.dDeliv[e.Data.Metadata.Height] = true
			what = fmt.Sprintf("deliver data %d", e.Data.Metadata.Height)
		} else {
			what = "deliver data without metadata"
		}
		err = f.DeliverData(e)
	}
	fw.o.Count("deliveries", 1)
	if keep {
		fw.o.Count("duplicate-deliveries", 1)
	}
	if len(f.LoopPanics) > 0 {
		fw.o.Fail(fw.id+"/panic-in-loop", "", step, strings.Join(f.LoopPanics, "; "), "no panic")
		return false
	}
	if err != nil {
		fw.o.Fail(fw.id+"/sync-halted", fw.id+"/sync-halted/"+classifyErr(err.Error()), step, fmt.Sprintf("%s: sync loop reported a fatal error: %v", what, err), "genuine material never halts the node")
		return false
	}
	h := f.Height()
	if h < hb {
		fw.o.Fail(fw.id+"/height-decreased", "", step, fmt.Sprintf("%s: height %d -> %d", what, hb, h), "height never decreases")
		return false
	}
	fw.o.Logf("%d %s -> h=%d fifo=%d/%d", step, what, h, len(f.HeaderFIFO), len(f.DataFIFO))
	return fw.checkPrefix(step, what)
}

func c02Run(t *testing.T, s *sim.Scn) *sim.Outcome {
	o := sim.NewOutcome()
	if p := sim.Bubble(t, func() { c02Body(t, s, o) }); p != nil {
		o.Fail("C02/panic", "", -1, fmt.Sprint(p), "no panic")
	}
	return o
}

func c02Body(t *testing.T, s *sim.Scn, o *sim.Outcome) {
	start := time.Now()
	w := sim.NewWorld(t, "c02", 1)
	defer w.Close()
	var spec []int64
	for _, op := range s.Ops {
		if op.K == "spec" {
			spec = append(spec, op.A%10)
		}
	}
	if len(spec) == 0 {
		spec = []int64{1}
	}
	blocks, _, err := buildChain(w, spec)
	if err != nil {
		// the proposer side is C01/C06's subject; a failure here is not a C02 verdict
		o.Logf("proposer could not build the chain: %v", err)
		o.Count("skipped:proposer-failed", 1)
		return
	}
	// a follower configured with the sequencer's pending-block limit (shared configuration files) converges like any other
	f := w.AddNode(sim.NodeCfg{Name: "full", MaxPending: uint64(s.Cfg["fmaxpending"])})
	fw := &followerWorld{w: w, f: f, blocks: blocks, o: o, planted: map[string]bool{}, hDeliv: map[uint64]bool{}, dDeliv: map[uint64]bool{}, id: "C02"}
	fw.fillP2P()
	if err := f.StartNode(); err != nil {
		o.Fail("C02/cannot-start", "", -1, err.Error(), "starts")
		return
	}
	top := fw.top()
	base := uint64(0)
	exact := true // intermediate exact expectation is only computed while no restart happened
	for i, op := range s.Ops {
		switch op.K {
		case "plant":
			fw.plant(int(op.A)%len(blocks), op.B%2, uint64(op.C%4))
			o.Count("da-plants", 1)
		case "retrieve":
			w.DA.SetCur(fw.maxDA)
			f.Retrieve()
			o.Count("da-retrieves", 1)
		case "p2p":
			fw.hP2P = min64u(top, fw.hP2P+uint64(op.A%4))
			fw.dP2P = min64u(top, fw.dP2P+uint64(op.B%4))
			f.HStore.SetHeight(fw.hP2P)
			f.DStore.SetHeight(fw.dP2P)
			if op.C%3 == 2 {
				// the poll comes while the sync loop still has events queued (DA-retrieved ones, duplicates)
				f.PollP2PBusy()
				o.Count("p2p-polls-with-queued-events", 1)
			} else {
				f.PollP2P()
			}
			o.Count("p2p-polls", 1)
		case "deliver", "dup":
			if !fw.deliver(i, op.A, op.B, op.K == "dup") {
				return
			}
			if exact {
				if e, h := fw.expected(base), f.Height(); h != e {
					o.Fail("C02/not-at-expected-height", "", i, fmt.Sprintf("after %s: height %d, but both parts of all blocks up to %d were delivered", op, h, e), "height = largest h with both parts of all blocks <= h received")
					return
				}
			}
		case "restart":
			if err := f.StopClean(); err != nil {
				o.Fail("C02/clean-stop-failed", "", i, err.Error(), "caches are saved")
				return
			}
			if err := f.StartNode(); err != nil {
				o.Fail("C02/cannot-restart", "", i, err.Error(), "restarts after a clean stop")
				return
			}
			fw.restarts++
			exact = false
			fw.hDeliv, fw.dDeliv = map[uint64]bool{}, map[uint64]bool{}
			o.Count("clean-restarts", 1)
			if !fw.checkPrefix(i, "restart") {
				return
			}
		}
		o.States = append(o.States, fmt.Sprintf("%s hf=%d df=%d", f.AbstractState(), len(f.HeaderFIFO), len(f.DataFIFO)))
	}
	// final phase: everything becomes available through at least one channel and is delivered.
	// cfg final: 0 = remaining parts through both channels, 1 = DA only (no P2P at all), 2 = P2P only
	final := s.Cfg["final"] % 3
	if final != 2 {
		for bi, b := range blocks {
			if !fw.planted[fmt.Sprintf("%d/0", bi)] && (final == 1 || bi%2 == 0) {
				fw.plant(bi, 0, 1)
			}
			if !b.Empty && !fw.planted[fmt.Sprintf("%d/1", bi)] && (final == 1 || bi%3 == 0) {
				fw.plant(bi, 1, 0)
			}
		}
		w.DA.SetCur(fw.maxDA)
		f.Retrieve()
	}
	if final != 1 {
		f.HStore.SetHeight(top)
		f.DStore.SetHeight(top)
		f.PollP2P()
	}
	for round := 0; round < 3; round++ {
		for len(f.HeaderFIFO) > 0 || len(f.DataFIFO) > 0 {
			fifo := int64(0)
			if len(f.HeaderFIFO) == 0 || (len(f.DataFIFO) > 0 && (len(f.HeaderFIFO)+len(f.DataFIFO))%2 == 1) {
				fifo = 1
			}
			if !fw.deliver(len(s.Ops), fifo, int64(len(f.HeaderFIFO)+len(f.DataFIFO)), false) {
				return
			}
		}
		if f.Height() == top {
			break
		}
		// a real node keeps polling: re-signal
		if final != 2 {
			f.Retrieve()
		}
		if final != 1 {
			f.PollP2P()
		}
	}
	if h := f.Height(); h != top {
		// classify: which block is it stuck at
		stuck := blocks[h+1-blocks[0].H]
		class := "non-empty-block"
		if stuck.Empty {
			class = "empty-block"
		} else {
			for _, b := range blocks {
				if b.H < stuck.H && !b.Empty && bytes.Equal(b.Header.DataHash, stuck.Header.DataHash) {
					class = "same-tx-list-as-earlier-block"
				}
			}
		}
		o.Fail("C02/not-converged", "C02/not-converged/"+class, len(s.Ops), fmt.Sprintf("all parts of all %d blocks were delivered (DA and P2P) but the follower stays at height %d (stuck before a %s)", top, h, class), "the follower reaches the proposer's height")
		return
	}
	if !fw.checkPrefix(len(s.Ops), "final") {
		return
	}
	o.SimTime = time.Since(start)
	o.NonTrivial = o.Counters["deliveries"] >= 4 && (o.Counters["da-plants"] > 0 || o.Counters["p2p-polls"] > 0) && len(blocks) >= 3
}

func min64u(a, b uint64) uint64 {
	if a < b {
		return a
	}
	return b
}

// c02GenNatural is the ordinary operation of a DA-only full node: k consecutive blocks per DA height, in
// order; after each DA height a scan and the delivery of what it found (in FIFO or seeded order).
func c02GenNatural(r *rand.Rand) *sim.Scn {
	s := &sim.Scn{Cfg: map[string]int64{"final": 1}}
	n := 3 + r.IntN(10)
	pSame := 20 + r.IntN(50)
	for i := 0; i < n; i++ {
		v := int64(1 + r.IntN(3))
		if r.IntN(100) < pSame {
			v = 9 - int64(r.IntN(2))
		} else if r.IntN(4) == 0 {
			v = 0
		}
		s.Ops = append(s.Ops, sim.Op{K: "spec", A: v})
	}
	k := 1 + r.IntN(4)
	total := n + 1 // plus the first (genesis) block
	for b := 0; b < total; b += k {
		for j := b; j < b+k && j < total; j++ {
			s.Ops = append(s.Ops, sim.Op{K: "plant", A: int64(j), B: 0, C: 0}, sim.Op{K: "plant", A: int64(j), B: 1, C: 0})
		}
		s.Ops = append(s.Ops, sim.Op{K: "retrieve"})
		for d := 0; d < 3*k; d++ {
			idx := int64(0)
			if r.IntN(3) == 0 {
				idx = r.Int64N(8)
			}
			s.Ops = append(s.Ops, sim.Op{K: "deliver", A: int64(d % 2), B: idx})
		}
		if r.IntN(12) == 0 {
			s.Ops = append(s.Ops, sim.Op{K: "restart"})
		}
	}
	return s
}

// c02Long: a chain of n blocks (empty, non-empty and identical transaction lists mixed), nothing delivered
// before the final phase (cfg final as in c02Body).
func c02Long(n int, final int64) *sim.Scn {
	s := &sim.Scn{Cfg: map[string]int64{"final": final}}
	for i := 0; i < n; i++ {
		s.Ops = append(s.Ops, sim.Op{K: "spec", A: []int64{1, 0, 2, 9, 3, 0, 8}[i%7]})
	}
	return s
}

func c02Gen(r *rand.Rand, tier string) *sim.Scn {
	if r.IntN(60) == 0 {
		return c02Long(65+r.IntN(140), r.Int64N(3))
	}
	if r.IntN(4) == 0 {
		return c02GenNatural(r)
	}
	s := &sim.Scn{Cfg: map[string]int64{"final": r.Int64N(3), "fmaxpending": []int64{0, 0, 0, 1, 3}[r.IntN(5)]}}
	n := 3 + r.IntN(10)
	if tier == "thorough" && r.IntN(3) == 0 {
		n = 10 + r.IntN(50)
	}
	pEmpty := r.IntN(70)
	pSame := 0
	if r.IntN(4) == 0 {
		pSame = 10 + r.IntN(30)
	}
	for i := 0; i < n; i++ {
		v := int64(1 + r.IntN(3))
		if r.IntN(100) < pEmpty {
			v = 0
		} else if r.IntN(100) < pSame {
			v = 9 - int64(r.IntN(2))
		}
		s.Ops = append(s.Ops, sim.Op{K: "spec", A: v})
	}
	m := 5 + r.IntN(8*n)
	pRestart := r.IntN(6)
	for i := 0; i < m; i++ {
		switch x := r.IntN(100); {
		case x < 25:
			s.Ops = append(s.Ops, sim.Op{K: "plant", A: r.Int64N(int64(n + 1)), B: r.Int64N(2), C: r.Int64N(4)})
		case x < 35:
			s.Ops = append(s.Ops, sim.Op{K: "retrieve"})
		case x < 50:
			s.Ops = append(s.Ops, sim.Op{K: "p2p", A: r.Int64N(4), B: r.Int64N(4), C: r.Int64N(3)})
		case x < 88:
			s.Ops = append(s.Ops, sim.Op{K: "deliver", A: r.Int64N(2), B: r.Int64N(64)})
		case x < 95:
			s.Ops = append(s.Ops, sim.Op{K: "dup", A: r.Int64N(2), B: r.Int64N(64)})
		default:
			if r.IntN(6) < pRestart {
				s.Ops = append(s.Ops, sim.Op{K: "restart"})
			}
		}
	}
	return s
}

func TestC02(t *testing.T) {
	sim.Main(t, &sim.Check{
		ID:    "C02",
		Level: "exploration",
		Rule: "seeded chain (3-12 blocks quick, up to 60 thorough; empty blocks, runs of them, non-empty, blocks with identical tx lists) produced by a real aggregator; per scenario a seeded program of DA blob placements (many per height, out of block order), P2P store advances, DA scans, deliveries to the sync loop in arbitrary order with duplicates, and clean restarts; " +
			"afterwards every part is made available and delivered. distinct = distinct scenario hash; non-trivial = chain of at least 3 blocks, at least 4 deliveries and at least one DA placement or P2P poll",
		Assumptions: []string{"P2P stores are harness-owned doubles holding the proposer's genuine items (go-header syncing itself runs in Engine N)", "events queued in the node's channels are lost on restart and re-obtained from DA/P2P"},
		Components:  map[string]string{"block.Manager follower loops (Retrieve, HeaderStoreRetrieve, DataStoreRetrieve, Sync)": "real", "pkg/cache": "real (files in a scratch dir)", "pkg/store": "real", "proposer": "real aggregator", "P2P stores": "stub (P2PStore)", "DA": "stub (SimDA)", "executor": "stub (SimExec)"},
		Gen:         c02Gen,
		Run:         c02Run,
		// directed: long chains whose parts arrive in one burst (a node that was partitioned or joins late):
		// everything over P2P only, everything over DA only, and mixed
		Directed:    []*sim.Scn{c02Long(150, 2), c02Long(150, 1), c02Long(97, 0)},
		QuickBudget: 30 * time.Second, ThoroughBudget: 12 * time.Minute,
	})
}
