package checks

import (
	"bufio"
	"bytes"
	"context"
	"encoding/binary"
	"fmt"
	"io"
	"math/rand/v2"
	"strings"
	"sync/atomic"
	"testing"
	"time"

	goheaderp2p "github.com/celestiaorg/go-header/p2p"
	p2ppb "github.com/celestiaorg/go-header/p2p/pb"
	goheaderstore "github.com/celestiaorg/go-header/store"
	ds "github.com/ipfs/go-datastore"
	ktds "github.com/ipfs/go-datastore/keytransform"
	pubsub "github.com/libp2p/go-libp2p-pubsub"
	"github.com/libp2p/go-libp2p/core/network"
	"github.com/libp2p/go-libp2p/core/peer"
	"github.com/libp2p/go-libp2p/core/protocol"
	mocknet "github.com/libp2p/go-libp2p/p2p/net/mock"
	"github.com/multiformats/go-multiaddr"

	"github.com/evstack/ev-node/pkg/p2p/key"
	"github.com/evstack/ev-node/types"

	"verif/harness/sim"
)

// C03, whole-node scenarios (cfg whole=1): a real sequencer node, a real full node and a real header-only
// (light) node over a libp2p mocknet under the fake clock, plus an adversarial peer: a raw gossipsub
// participant on the chain's header and data topics that publishes whatever it likes - here the forged
// headers of c03's adversary (self-consistent forgeries under the proposer's address, re-signed and
// field-mutated copies, unsigned and garbage-signed headers that hash-link to the current head, wrong
// chain id, ...) aimed at the current head, at the next height (racing the genuine header) and at past
// heights, and forged data for the same heights. Oracles, after a clean stop of everybody: every header in
// the P2P header store of the full node and of the light node - what they serve to other light clients -
// is the proposer's header of that height; the full node's chain is a prefix of the proposer's and has
// reached the height the proposer had when the final (attack-free) phase began; nobody shut itself down.

func c03TopicIDs(chainID string) (string, string) {
	return goheaderp2p.PubsubTopicID(chainID + "-headerSync"), goheaderp2p.PubsubTopicID(chainID + "-dataSync")
}

func c03WholeBody(t *testing.T, s *sim.Scn, o *sim.Outcome) {
	start := time.Now()
	rw := &rworld{t: t, s: s, o: o}
	rw.bt = time.Duration(max64(200, s.Cfg["bt"])) * time.Millisecond
	rw.dat = time.Duration(max64(500, s.Cfg["dat"])) * time.Millisecond
	rw.w = sim.NewWorld(t, "c03w", 1)
	defer rw.w.Close()
	rw.mn = mocknet.New()
	defer rw.mn.Close()
	rw.streamDelay = time.Duration(20+s.Cfg["linkms"]%40) * time.Millisecond
	names := []string{"seq", "full1", "light1"}
	for i, name := range names {
		priv := sim.KeyFromSeed("nodekey-" + name)
		addr, _ := multiaddr.NewMultiaddr(fmt.Sprintf("/ip4/10.0.0.%d/tcp/7676", i+1))
		pid, _ := peer.IDFromPublicKey(priv.GetPublic())
		rn := &rnode{name: name, idx: i, agg: i == 0, light: i == 2, nk: &key.NodeKey{PrivKey: priv, PubKey: priv.GetPublic()}, addr: addr, pid: pid}
		rn.sn = rw.w.AddNode(sim.NodeCfg{Name: name, Aggregator: i == 0, BlockTime: rw.bt, DABlockTime: rw.dat})
		rw.nodes = append(rw.nodes, rn)
		if i == 0 {
			rw.aggAddr = fmt.Sprintf("%s/p2p/%s", addr, pid)
		}
	}
	rw.applyJitter()
	agg, full, light := rw.nodes[0], rw.nodes[1], rw.nodes[2]
	rw.w.DA.AutoAdvance = true
	// cfg evil=1: a third party runs its own sequencer node for the same chain id - a complete, unmodified node
	// whose genesis names its own key as proposer. It produces, gossips and serves a self-consistent chain and
	// publishes it on the same DA layer. cfg evil=2: the victims moreover list it among their configured peers
	// (a malicious bootstrap peer), so it is asked for the first header too.
	var evil *rnode
	if s.Cfg["evil"] > 0 {
		esg, ekey := sim.SignerFromSeed("attacker")
		eaddr, _ := esg.GetAddress()
		eg := rw.w.Genesis
		eg.ProposerAddress = eaddr
		priv := sim.KeyFromSeed("nodekey-evil")
		addr, _ := multiaddr.NewMultiaddr("/ip4/10.0.0.99/tcp/7676")
		pid, _ := peer.IDFromPublicKey(priv.GetPublic())
		evil = &rnode{name: "evil", idx: 9, agg: true, nk: &key.NodeKey{PrivKey: priv, PubKey: priv.GetPublic()}, addr: addr, pid: pid, genesis: &eg, signer: esg}
		evil.sn = rw.w.AddNode(sim.NodeCfg{Name: "evil", Aggregator: true, BlockTime: rw.bt, DABlockTime: rw.dat})
		_ = ekey
		if s.Cfg["evil"] == 2 {
			for _, v := range []*rnode{full, light} {
				v.extraPeers = fmt.Sprintf("%s/p2p/%s", addr, pid)
			}
		}
	}
	stopAll := func() bool {
		ok := true
		for _, rn := range rw.nodes {
			if !rw.stop(rn, false, -1) {
				ok = false
			}
		}
		return ok
	}
	// the adversarial peer
	ctx, cancel := context.WithCancel(context.Background())
	defer cancel()
	apriv := sim.KeyFromSeed("nodekey-attacker")
	aaddr, _ := multiaddr.NewMultiaddr("/ip4/10.0.0.66/tcp/7676")
	ahost, err := rw.mn.AddPeer(apriv, aaddr)
	if err != nil {
		panic(err)
	}
	aps, err := pubsub.NewGossipSub(ctx, ahost)
	if err != nil {
		panic(err)
	}
	var lies atomic.Int64
	defer func() { o.Count("lying-exchange-answers", int(lies.Load())) }()
	if liar := s.Cfg["liar"]; liar > 0 {
		// a lying exchange server: the adversarial peer answers every request of go-header's header exchange
		// protocol (the first header a node with an empty store asks for, head requests, range requests) with a
		// header that is valid in itself - its own key, its own address as proposer, right chain id - at the
		// requested height (liar=1), the next one (2) or far above (3). The victims list it among their configured
		// peers (a malicious bootstrap peer), so they do ask it.
		lsg, _ := sim.SignerFromSeed("attacker")
		delta := []uint64{0, 0, 1, 40}[liar%4]
		ahost.SetStreamHandler(protocol.ID("/"+rw.w.Genesis.ChainID+"-headerSync/header-ex/v0.0.3"), func(st network.Stream) {
			rd := bufio.NewReader(st)
			size, err := binary.ReadUvarint(rd)
			if err != nil || size > 1<<20 {
				_ = st.Reset()
				return
			}
			buf := make([]byte, size)
			req := new(p2ppb.HeaderRequest)
			if _, err := io.ReadFull(rd, buf); err != nil || req.Unmarshal(buf) != nil {
				_ = st.Reset()
				return
			}
			h := req.GetOrigin()
			if h == 0 {
				h = 7 // a head request
			}
			forged, err := types.GetRandomSignedHeaderCustom(&types.HeaderConfig{Height: h + delta, DataHash: (&types.Data{}).DACommitment(), AppHash: bytes.Repeat([]byte{0x5a}, 32), Signer: lsg}, rw.w.Genesis.ChainID)
			if err != nil {
				_ = st.Reset()
				return
			}
			body, _ := forged.MarshalBinary()
			resp, _ := (&p2ppb.HeaderResponse{Body: body, StatusCode: p2ppb.StatusCode_OK}).Marshal()
			_, _ = st.Write(append(binary.AppendUvarint(nil, uint64(len(resp))), resp...))
			_ = st.Close()
			lies.Add(1)
		})
		for _, v := range []*rnode{full, light} {
			if v.extraPeers != "" {
				v.extraPeers += ","
			}
			v.extraPeers += fmt.Sprintf("%s/p2p/%s", aaddr, ahost.ID())
		}
	}
	hTopicID, dTopicID := c03TopicIDs(rw.w.Genesis.ChainID)
	hTopic, err := aps.Join(hTopicID)
	if err != nil {
		panic(err)
	}
	dTopic, err := aps.Join(dTopicID)
	if err != nil {
		panic(err)
	}
	// it subscribes as well, so that the victims' routers graft it into their meshes
	hSub, _ := hTopic.Subscribe()
	dSub, _ := dTopic.Subscribe()
	go func() {
		for {
			if _, err := hSub.Next(ctx); err != nil {
				return
			}
		}
	}()
	go func() {
		for {
			if _, err := dSub.Next(ctx); err != nil {
				return
			}
		}
	}()
	connectAttacker := func() {
		for _, rn := range rw.nodes {
			if rn.up {
				_ = rw.mn.UnlinkPeers(ahost.ID(), rn.pid)
				if _, err := rw.mn.LinkPeers(ahost.ID(), rn.pid); err == nil {
					_, _ = rw.mn.ConnectPeers(ahost.ID(), rn.pid)
				}
			}
		}
	}
	txn := 0
	inject := func(n int) {
		for j := 0; j < n; j++ {
			txn++
			agg.sn.Exec.InjectTx([]byte(fmt.Sprintf("k%d=v%d", txn, txn)))
		}
	}
	for _, rn := range rw.nodes {
		rn.wantUp = true
	}
	rw.start(agg)
	if o.V != nil {
		return
	}
	if evil != nil {
		// the evil sequencer is up first and dials the victims' hosts as soon as they exist, so that it is among
		// the peers a victim knows when its sync service starts
		rw.nodes = append(rw.nodes, evil)
		evil.wantUp = true
		rw.start(evil)
		if o.V != nil {
			stopAll()
			return
		}
		o.Count("evil-sequencer-runs", 1)
	}
	time.Sleep(rw.bt + 300*time.Millisecond)
	bringUp := func(step int) bool {
		if !rw.reap(step, "bring-up") {
			return false
		}
		for _, x := range rw.nodes {
			if x.wantUp && !x.up {
				rw.start(x)
				if o.V != nil {
					return false
				}
			}
		}
		connectAttacker()
		if evil != nil && evil.up {
			for _, v := range []*rnode{full, light} {
				if v.up {
					_, _ = rw.mn.ConnectPeers(evil.pid, v.pid)
				}
			}
		}
		return true
	}
	for i := 0; i < 4; i++ {
		if !bringUp(-1) {
			stopAll()
			return
		}
		time.Sleep(time.Second)
	}
	// the proposer's chain as the adversary sees it
	chain := func() []pBlock {
		var out []pBlock
		st := agg.sn.Peek()
		h := agg.sn.Height()
		for x := uint64(1); x <= h; x++ {
			hd, d, err := st.GetBlockData(context.Background(), x)
			if err != nil {
				break
			}
			out = append(out, pBlock{H: x, Header: hd, Data: d, Empty: len(d.Txs) == 0})
		}
		return out
	}
	forged := map[string]string{} // header hash -> kind name
	for i, op := range s.Ops {
		switch op.K {
		case "run":
			time.Sleep(time.Duration(50+op.A%5000) * time.Millisecond)
		case "tx":
			inject(1 + int(op.B%3))
		case "forge":
			blocks := chain()
			if len(blocks) == 0 {
				continue
			}
			// targets: the height after the head (a header the proposer has not produced yet, built the way the
			// next genuine header will look: linked to the head, later timestamp - it races the genuine one),
			// a past height, or the head itself
			top := blocks[len(blocks)-1]
			nh := cloneHeader(top.Header)
			nh.BaseHeader.Height = top.H + 1
			nh.BaseHeader.Time = top.Header.BaseHeader.Time + uint64(rw.bt)
			nh.LastHeaderHash = top.Header.Hash()
			nh.DataHash = (&types.Data{}).DACommitment()
			withNext := append(append([]pBlock(nil), blocks...), pBlock{H: top.H + 1, Header: nh, Data: &types.Data{}, Empty: true})
			adv := newAdversary(rw.w, withNext)
			bi := len(withNext) - 1
			switch op.B % 3 {
			case 1:
				bi = int(op.C) % len(blocks)
			case 2:
				bi = len(blocks) - 1
			}
			isNext := bi == len(withNext)-1
			h, name := adv.header(op.A, bi)
			raw, err := h.MarshalBinary()
			if err != nil {
				continue
			}
			if isNext {
				name += "/at-the-next-height"
			}
			if isNext || !bytes.Equal(h.Hash(), blocks[bi].Header.Hash()) {
				forged[string(h.Hash())] = name
			}
			if err := hTopic.Publish(ctx, raw); err == nil {
				o.Count("forged-header-published:"+name, 1)
				o.Count(fmt.Sprintf("attacker-sees-%d-header-topic-peers", len(hTopic.ListPeers())), 1)
			}
			if op.B%2 == 0 {
				// forged data for the height the forged header names
				d := &types.Data{Metadata: &types.Metadata{ChainID: rw.w.Genesis.ChainID, Height: h.Height(), Time: uint64(h.Time().UnixNano())}, Txs: types.Txs{[]byte(fmt.Sprintf("evil=%d", i))}}
				if rawd, err := d.MarshalBinary(); err == nil {
					if err := dTopic.Publish(ctx, rawd); err == nil {
						o.Count("forged-data-published", 1)
					}
				}
			}
		case "junk":
			junk := c09Junk(2+op.A%7, op.C, []byte{0x0a, 0x03, 0x12, 0x01, 0x78})
			for _, j := range junk[:1] {
				_ = hTopic.Publish(ctx, j)
				_ = dTopic.Publish(ctx, j)
			}
			o.Count("junk-published", 1)
		}
		if !bringUp(i) {
			stopAll()
			return
		}
		o.Logf("%d %s agg=%d full=%d", i, op, agg.sn.Height(), full.sn.Height())
	}
	// attack-free final phase
	time.Sleep(2 * rw.bt)
	target := agg.sn.Height()
	for k := 0; k < 10; k++ {
		time.Sleep(3*rw.dat + 3*time.Second)
		if !bringUp(len(s.Ops)) { // the operator starts again whatever was refused at start-up
			stopAll()
			return
		}
	}
	if !rw.reap(len(s.Ops), "final phase") {
		stopAll()
		return
	}
	reached := full.sn.Height()
	for _, x := range rw.nodes {
		if x == evil {
			continue
		}
		if !x.up {
			o.Fail("C03/node-down-under-third-party-traffic", "C03/node-down-under-third-party-traffic/"+x.name, len(s.Ops), fmt.Sprintf("%s is down at the end of the final phase (last start refused or Run returned: %v)", x.name, x.err), "third-party material does not halt a node")
			stopAll()
			return
		}
	}
	if !stopAll() || o.V != nil {
		return
	}
	o.SimTime = time.Since(start)
	bg := context.Background()
	blocks := chain()
	// what the victims would serve to light clients: their P2P header stores
	for _, v := range []*rnode{full, light} {
		var kv ds.Batching = v.sn.Disk.PeekDS()
		if !v.light {
			kv = ktds.Wrap(kv, ktds.PrefixTransform{Prefix: ds.NewKey("0")})
		}
		st, err := goheaderstore.NewStore[*types.SignedHeader](kv, goheaderstore.WithStorePrefix("headerSync"))
		if err != nil {
			panic(err)
		}
		head, err := st.Head(bg)
		if err != nil {
			o.Count("p2p-header-store-empty:"+v.name, 1)
			continue
		}
		o.Count("p2p-header-store-height:"+v.name, int(head.Height()))
		for x := uint64(1); x <= head.Height(); x++ {
			hd, err := st.GetByHeight(bg, x)
			if err != nil {
				continue // stores may start from a later trusted height
			}
			if int(x) > len(blocks) || !bytes.Equal(hd.Hash(), blocks[x-1].Header.Hash()) {
				name := forged[string(hd.Hash())]
				if name == "" {
					name = "unknown-origin"
					if evil != nil {
						if eh, _, err := evil.sn.Peek().GetBlockData(bg, x); err == nil && bytes.Equal(eh.Hash(), hd.Hash()) {
							name = "header-of-the-third-party-sequencer"
						}
					}
				}
				o.Fail("C03/forged-header-in-p2p-store", "C03/forged-header-in-p2p-store/"+v.name+"/"+name, len(s.Ops),
					fmt.Sprintf("%s stores (and serves to light clients) at height %d a header that is not the proposer's: %s", v.name, x, name), "only headers signed by the genesis proposer are stored or served")
				return
			}
		}
	}
	fh := full.sn.Height()
	for x := uint64(1); x <= fh; x++ {
		b, _, e2 := full.sn.Peek().GetBlockData(bg, x)
		if e2 != nil || int(x) > len(blocks) || !bytes.Equal(blocks[x-1].Header.Hash(), b.Hash()) {
			o.Fail("C03/full-node-applied-foreign-block", "", len(s.Ops), fmt.Sprintf("full node at height %d: block %d differs from the proposer's or is missing (%v)", fh, x, e2), "only the proposer's blocks are applied")
			return
		}
	}
	if reached == 0 && s.Cfg["liar"] > 0 {
		// a node whose configured (bootstrap) peers lie about the first header refuses to start until an honest answer
		// comes first - by design, and nothing in the statement promises otherwise: it never got to follow anything
		o.Count("inconclusive:start-kept-refused-by-a-lying-bootstrap-peer", 1)
		return
	}
	if reached < target {
		o.Fail("C03/full-node-stalled-by-third-party-traffic", "", len(s.Ops), fmt.Sprintf("the full node is at height %d after an attack-free final phase; the proposer was at %d when it began", reached, target), "third-party material does not prevent a full node from following the proposer's chain")
		return
	}
	o.Count("whole-node-attack-runs", 1)
	n := 0
	for k, v := range o.Counters {
		if strings.HasPrefix(k, "forged-header-published") {
			n += v
		}
	}
	o.NonTrivial = n >= 2 && fh >= 3
}

func c03WholeGen(r *rand.Rand, tier string) *sim.Scn {
	s := &sim.Scn{Cfg: map[string]int64{"whole": 1, "bt": []int64{300, 500, 1000}[r.IntN(3)], "dat": []int64{1000, 2000}[r.IntN(2)], "linkms": r.Int64N(40), "evil": []int64{0, 0, 1, 2}[r.IntN(4)], "liar": []int64{0, 0, 1, 2, 3}[r.IntN(5)], "jitter": []int64{0, 0, 0, 400, 4000}[r.IntN(5)], "jsalt": r.Int64N(1 << 30)}}
	n := 6 + r.IntN(14)
	for i := 0; i < n; i++ {
		switch x := r.IntN(100); {
		case x < 30:
			s.Ops = append(s.Ops, sim.Op{K: "run", A: r.Int64N(3000)})
		case x < 40:
			s.Ops = append(s.Ops, sim.Op{K: "tx", B: r.Int64N(3)})
		case x < 92:
			s.Ops = append(s.Ops, sim.Op{K: "forge", A: r.Int64N(numAdvHeaderKinds), B: r.Int64N(6), C: r.Int64N(1000)})
		default:
			s.Ops = append(s.Ops, sim.Op{K: "junk", A: r.Int64N(7), C: r.Int64N(1000)})
		}
	}
	if tier != "thorough" && s.Cfg["jitter"] > 400 {
		s.Cfg["jitter"] = 400 // the slowest goroutines make a whole-node scenario take minutes: thorough tier only
	}
	if s.Cfg["liar"] > 0 && s.Cfg["evil"] == 2 {
		s.Cfg["evil"] = 1 // one malicious bootstrap peer at a time: the honest sequencer stays the majority of the configured peers
	}
	return s
}

func c03WholeRun(t *testing.T, s *sim.Scn) *sim.Outcome {
	o := sim.NewOutcome()
	p, dump := sim.BubbleWall(t, func() { c03WholeBody(t, s, o) }, 90*time.Second)
	if p == sim.BubbleStalled {
		o.V = nil
		if strings.Contains(dump, "simNetDelay") {
			o.Count("inconclusive:fake-clock-held-up-by-a-lock-across-simulated-network-wait", 1)
		} else {
			o.Count("inconclusive:bubble-made-no-progress", 1)
		}
		return o
	}
	if p != nil {
		if msg := fmt.Sprint(p); !strings.Contains(msg, "deadlock") {
			o.Fail("C03/panic", "", -1, msg, "no panic")
		}
	}
	return o
}

// p2pHeaderStore opens the P2P header store a stopped node left on its disk (read-only).
func p2pHeaderStore(v *rnode) (*goheaderstore.Store[*types.SignedHeader], error) {
	var kv ds.Batching = v.sn.Disk.PeekDS()
	if !v.light {
		kv = ktds.Wrap(kv, ktds.PrefixTransform{Prefix: ds.NewKey("0")})
	}
	return goheaderstore.NewStore[*types.SignedHeader](kv, goheaderstore.WithStorePrefix("headerSync"))
}

// p2pDataStoreHeight returns the height of the P2P data store a stopped full node left on its disk (0 if empty).
func p2pDataStoreHeight(v *rnode) uint64 {
	var kv ds.Batching = v.sn.Disk.PeekDS()
	if !v.light {
		kv = ktds.Wrap(kv, ktds.PrefixTransform{Prefix: ds.NewKey("0")})
	}
	st, err := goheaderstore.NewStore[*types.Data](kv, goheaderstore.WithStorePrefix("dataSync"))
	if err != nil {
		return 0
	}
	head, err := st.Head(context.Background())
	if err != nil {
		return 0
	}
	return head.Height()
}
