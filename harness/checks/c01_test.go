package checks

import (
	"bytes"
	"context"
	"fmt"
	"math/rand/v2"
	"testing"
	"time"

	"verif/harness/sim"
)

// C01 — the sequencer node only ever commits a valid, hash-linked, signed chain and never wedges.
//
// World: real aggregator Manager (real store, signer, validation) with a scripted sequencing double
// and the deterministic execution double. Each "produce" op fixes the sequencing response and the
// execution outcome of that step; "restart" stops cleanly and restarts. Afterwards responses turn
// well-formed and the node must commit a block within 3 production steps.

type c01Model struct {
	usedIdx int // index into Handed of the last response a committed block was built from
}

func c01Run(t *testing.T, s *sim.Scn) *sim.Outcome {
	o := sim.NewOutcome()
	if p := sim.Bubble(t, func() { c01Body(t, s, o) }); p != nil {
		o.Fail("C01/panic", "", -1, fmt.Sprint(p), "no panic")
	}
	return o
}

func c01Body(t *testing.T, s *sim.Scn, o *sim.Outcome) {
	start := time.Now()
	ih := uint64(s.Cfg["ih"])
	if ih < 1 {
		ih = 1
	}
	w := sim.NewWorld(t, "c01", ih)
	defer w.Close()
	n := w.AddNode(sim.NodeCfg{Name: "seq", Aggregator: true, ScriptedSeq: true, LazyMode: s.Cfg["lazy"] == 1})
	if err := n.StartNode(); err != nil {
		o.Fail("C01/cannot-start", "", -1, err.Error(), "node starts on an empty disk")
		return
	}
	genesisRoot := n.M.GetLastState().AppHash
	ctx := context.Background()
	model := &c01Model{usedIdx: -1}
	commitsByHash := map[string]string{} // datahash -> tx list digest (binding)
	lastTime := func() time.Time {
		h := n.Height()
		if h < ih {
			return w.Genesis.GenesisDAStartTime
		}
		hdr, err := n.Peek().GetHeader(ctx, h)
		if err != nil {
			return w.Genesis.GenesisDAStartTime
		}
		return hdr.Time()
	}
	errorsSeen, restarts, committed := 0, 0, 0

	checkAfter := func(step int, hBefore uint64, what string) bool {
		h := n.Height()
		if h < hBefore {
			o.Fail("C01/height-decreased", "", step, fmt.Sprintf("%s: height %d -> %d", what, hBefore, h), "height never decreases")
			return false
		}
		if h > hBefore+1 {
			o.Fail("C01/height-skipped", "", step, fmt.Sprintf("%s: height %d -> %d", what, hBefore, h), "exactly one more")
			return false
		}
		if h == hBefore {
			return true
		}
		committed++
		if h < ih {
			o.Fail("C01/height-below-initial", "", step, fmt.Sprintf("committed height %d, initial height %d", h, ih), "first block at the initial height")
			return false
		}
		from := h - 1
		if from < ih {
			from = ih
		}
		var gr []byte
		if from == ih {
			gr = genesisRoot
		}
		msg, facts := w.VerifyChain(n.Peek(), from, h, gr)
		if msg != "" {
			o.Fail("C01/invalid-block-committed", "", step, what+": "+msg, "every committed block is valid")
			return false
		}
		blk := facts[len(facts)-1]
		// attribution to a batch handed out by the sequencing layer, in order, none twice
		if h > ih { // the first block is the genesis block, built from no batch
			found := -1
			for i := model.usedIdx + 1; i < len(n.Scripted.Handed); i++ {
				r := n.Scripted.Handed[i]
				if r.Kind != 2 && r.Kind != 3 {
					continue
				}
				if r.Time.UnixNano() == blk.Header.Time().UnixNano() && sim.TxsEqual(blk.Data, r.Txs) {
					found = i
					break
				}
			}
			if found < 0 {
				o.Fail("C01/block-not-built-from-a-released-batch", "", step,
					fmt.Sprintf("%s: block %d (time %d, %d txs) matches no batch released after batch #%d", what, h, blk.Header.Time().UnixNano(), len(blk.Data.Txs), model.usedIdx),
					"block commits to exactly the transactions and timestamp of a batch the sequencing layer released, in release order")
				return false
			}
			model.usedIdx = found
		} else if len(blk.Data.Txs) != 0 {
			o.Fail("C01/first-block-has-txs", "", step, "first block carries transactions although no batch was taken", "empty first block")
			return false
		}
		// binding of the data commitment
		dig := fmt.Sprintf("%x", bytes.Join(txsOf(blk), []byte{0xff, 0x00}))
		dh := string(blk.Header.DataHash)
		if prev, ok := commitsByHash[dh]; ok && prev != dig {
			o.Fail("C01/commitment-not-binding", "", step, "two different transaction lists share one data commitment", "distinct lists, distinct commitments")
			return false
		}
		commitsByHash[dh] = dig
		// what was broadcast is what was stored
		for _, bh := range n.HB.All() {
			if bh.Height() == h && !bytes.Equal(bh.Hash(), blk.Hash) {
				o.Fail("C01/broadcast-differs-from-stored", "", step, fmt.Sprintf("height %d: broadcast header differs from the stored one", h), "equal")
				return false
			}
		}
		if q := w.CheckQuiescent(n.Peek()); q != "" {
			o.Fail("C01/height-state-disagree", "", step, what+": "+q, "height, state and blocks agree after a completed step")
			return false
		}
		return true
	}

	restart := func(step int) bool {
		restarts++
		_ = n.StopClean()
		if err := n.StartNode(); err != nil {
			o.Fail("C01/cannot-restart", "", step, err.Error(), "node restarts")
			return false
		}
		return true
	}

	for i, op := range s.Ops {
		switch op.K {
		case "restart":
			if !restart(i) {
				return
			}
			o.Logf("%d restart %s", i, n.AbstractState())
		case "produce":
			time.Sleep(time.Second) // the aggregation loop never calls publishBlock before genesis time + block time
			kind := int(op.A % 5)
			r := &sim.SeqResp{Kind: kind}
			switch op.B % 5 {
			case 3:
				// a timestamp with a sub-millisecond part, a fraction of a millisecond after the last block's
				r.Time = lastTime().Add(600 * time.Microsecond)
				o.Count("ts:sub-millisecond", 1)
			case 4:
				r.Time = lastTime().Add(100 * time.Microsecond)
				o.Count("ts:sub-millisecond", 1)
			case 0:
				r.Time = time.Now()
			case 1:
				r.Time = lastTime()
				o.Count("ts:equal", 1)
			case 2:
				r.Time = lastTime().Add(-time.Duration(1+op.B/3) * time.Millisecond)
				o.Count("ts:earlier", 1)
			}
			if kind == 3 {
				ntx := 1 + int(op.C%4)
				for j := 0; j < ntx; j++ {
					var tx []byte
					switch (op.C >> 4) % 4 {
					case 0:
						tx = []byte(fmt.Sprintf("tx-%d-%d", i, j))
					case 1:
						tx = append([]byte{0, 0xff, 0xfe}, []byte(fmt.Sprintf("%d-%d", i, j))...)
					case 2:
						tx = bytes.Repeat([]byte{byte(i), byte(j)}, 2048)
					case 3:
						if j == 0 {
							tx = []byte{}
						} else {
							tx = []byte(fmt.Sprintf("t%d-%d", i, j))
						}
					}
					r.Txs = append(r.Txs, tx)
				}
			}
			o.Count(fmt.Sprintf("seq-resp:%d", kind), 1)
			n.Scripted.Script = []*sim.SeqResp{r}
			if op.S == "f" {
				n.Exec.ExecScript = []bool{true}
			} else {
				n.Exec.ExecScript = nil
			}
			// the block size limit the execution layer reports with this step's answers
			n.Exec.MaxBytes = []uint64{0, 0, 64, 1, 5000}[(op.C>>8)%5]
			if n.Exec.MaxBytes != 0 {
				o.Count("exec-reports-small-max-bytes", 1)
			}
			hBefore := n.Height()
			err := n.Produce()
			n.Scripted.Script = nil
			n.Exec.ExecScript = nil
			o.Logf("%d produce kind=%d ts=%d exec=%q err=%v %s", i, kind, op.B%5, op.S, err != nil, n.AbstractState())
			if !checkAfter(i, hBefore, fmt.Sprintf("produce(kind=%d,ts=%d)", kind, op.B%5)) {
				return
			}
			if err != nil {
				errorsSeen++
				o.Count("produce-error", 1)
				// a real node shuts down when the aggregation loop reports an error
				if !restart(i) {
					return
				}
			}
		}
		o.States = append(o.States, n.AbstractState())
	}

	// recovery: responses are well-formed from now on
	n.Scripted.Script = nil
	n.Exec.ExecScript = nil
	if !restart(len(s.Ops)) {
		return
	}
	hBefore := n.Height()
	var lastErr error
	for k := 0; k < 3 && n.Height() == hBefore; k++ {
		time.Sleep(time.Second)
		hb := n.Height()
		lastErr = n.Produce()
		if !checkAfter(len(s.Ops)+k, hb, "recovery produce") {
			return
		}
		if lastErr != nil {
			if !restart(len(s.Ops) + k) {
				return
			}
		}
	}
	if n.Height() == hBefore {
		sig := "C01/wedged-after-responses-well-formed"
		if lastErr != nil {
			sig += "/" + classifyErr(lastErr.Error())
		}
		o.Fail("C01/wedged-after-responses-well-formed", sig, len(s.Ops), fmt.Sprintf("height stays %d after 3 well-formed production steps and a restart; last error: %v", hBefore, lastErr), "a new block is committed")
		return
	}
	// the whole chain, once more, from the first block
	if h := n.Height(); h >= ih {
		if msg, _ := w.VerifyChain(n.Peek(), ih, h, genesisRoot); msg != "" {
			o.Fail("C01/invalid-block-committed", "", len(s.Ops), "final chain: "+msg, "valid chain")
			return
		}
	}
	o.SimTime = time.Since(start)
	o.NonTrivial = committed >= 2 && (errorsSeen > 0 || restarts > 1 || o.Counters["ts:earlier"] > 0 || o.Counters["seq-resp:0"]+o.Counters["seq-resp:1"]+o.Counters["seq-resp:4"] > 0)
}

func txsOf(b sim.BlockFacts) [][]byte {
	out := make([][]byte, len(b.Data.Txs))
	for i, tx := range b.Data.Txs {
		out[i] = tx
	}
	return out
}

// classifyErr maps an error message to a stable short class for signatures.
func classifyErr(msg string) string {
	for _, k := range []string{"block time must be strictly increasing", "invalid height", "appHash mismatch", "timestamp is not monotonically increasing", "failed to execute transactions", "failed to save block", "error while loading last", "chain ID mismatch", "validation failed", "invalid header"} {
		if bytes.Contains([]byte(msg), []byte(k)) {
			return k
		}
	}
	return "other"
}

func c01Gen(r *rand.Rand, tier string) *sim.Scn {
	s := &sim.Scn{Cfg: map[string]int64{"ih": 1, "lazy": int64(r.IntN(2))}}
	if r.IntN(3) == 0 {
		s.Cfg["ih"] = 1 + r.Int64N(50)
	}
	n := 5 + r.IntN(36)
	if tier == "thorough" && r.IntN(4) == 0 {
		n = 20 + r.IntN(280)
	}
	// per-run fault mix (swarm)
	pBad := r.IntN(40)  // % of steps with a non-well-formed response kind
	pTs := r.IntN(30)   // % with equal/earlier timestamps
	pExec := r.IntN(20) // % exec failures
	pMax := r.IntN(50)  // % steps after which the execution layer reports a small block size limit
	for i := 0; i < n; i++ {
		if r.IntN(12) == 0 {
			s.Ops = append(s.Ops, sim.Op{K: "restart"})
			continue
		}
		op := sim.Op{K: "produce", A: 2 + r.Int64N(2)}
		if r.IntN(100) < pBad {
			op.A = []int64{0, 1, 4}[r.IntN(3)]
		}
		if r.IntN(100) < pTs {
			op.B = 1 + r.Int64N(2) + 3*r.Int64N(5)
		}
		op.C = r.Int64N(64)
		if r.IntN(100) < pMax {
			op.C |= r.Int64N(5) << 8
		}
		if r.IntN(100) < pExec {
			op.S = "f"
		}
		s.Ops = append(s.Ops, op)
	}
	return s
}

func TestC01(t *testing.T) {
	sim.Main(t, &sim.Check{
		ID:    "C01",
		Level: "exploration",
		Rule: "seeded sequences of production steps, each with a scripted sequencing response (absent response, absent batch, empty batch, non-empty batch with arbitrary tx bytes/sizes, error) x timestamp (later/equal/earlier than the last block) x execution outcome (ok/error), " +
			"clean restarts in between, initial height 1..50, then well-formed responses and a bounded-liveness check; distinct = distinct scenario hash; non-trivial = at least 2 blocks committed and at least one error, restart, earlier timestamp or absent/erroneous response executed",
		Assumptions: []string{"execution layer is a deterministic double (root = H(prev,height,txs))", "sequencing layer is a scripted double", "simulated disk (journalled ordered map)"},
		Components:  map[string]string{"block.Manager (publishBlock, createBlock, applyBlock, Validate)": "real", "pkg/store": "real", "signer (noop, seeded key)": "real", "sequencer": "stub (scripted)", "executor": "stub (SimExec)", "datastore": "stub (SimDatastore)"},
		Gen:         c01Gen,
		Run:         c01Run,
		CfgMin:      map[string]int64{"ih": 1},
		QuickBudget: 25 * time.Second, ThoroughBudget: 10 * time.Minute,
	})
}
