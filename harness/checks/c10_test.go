package checks

import (
	"bytes"
	"context"
	"fmt"
	"math/rand/v2"
	"os"
	"sort"
	"strings"
	"sync"
	"sync/atomic"
	"testing"
	"time"

	"github.com/anishathalye/porcupine"
	logging "github.com/ipfs/go-log/v2"

	coresequencer "github.com/evstack/ev-node/core/sequencer"
	"github.com/evstack/ev-node/sequencers/single"

	"verif/harness/sim"
)

// C10 — the single sequencer's batch queue is a durable FIFO with exactly-once delivery.
//
// World: the real single.Sequencer over the simulated disk. Sequential histories of submit / next /
// restart / crash-inside-an-operation are checked against a FIFO model (a set of candidate models after
// a crash cut an operation). Concurrent submitters/consumers are recorded and checked with porcupine.

type c10Batch [][]byte

func c10Content(op sim.Op) c10Batch {
	// few distinct contents so that identical batches occur; B picks the content, C the tx count
	id := op.B % 4
	n := 1 + op.C%3
	var b c10Batch
	for i := int64(0); i < n; i++ {
		b = append(b, []byte(fmt.Sprintf("content-%d/tx-%d", id, i)))
	}
	return b
}

func c10Key(b c10Batch) string {
	parts := make([]string, len(b))
	for i, tx := range b {
		parts[i] = string(tx)
	}
	return strings.Join(parts, "|")
}

func c10Clone(q []c10Batch) []c10Batch { return append([]c10Batch(nil), q...) }

func c10PrefixKeys(d *sim.Disk) string {
	var ks []string
	for _, k := range d.Keys() {
		if strings.HasPrefix(k, "/batches") {
			v, _ := d.RawGet(k)
			ks = append(ks, fmt.Sprintf("%s=%x", k, v))
		}
	}
	return strings.Join(ks, ";")
}

func c10Run(t *testing.T, s *sim.Scn) *sim.Outcome {
	o := sim.NewOutcome()
	ctx := context.Background()
	sim.QuietLogs()
	logger := logging.Logger("verif")
	bound := int(s.Cfg["bound"])
	if bound < 1 {
		bound = 1
	}
	chain := []byte("c10")
	disk := sim.NewDisk(nil)
	open := func() (*single.Sequencer, error) {
		m, _ := single.NopMetrics()
		return single.NewSequencerWithQueueSize(ctx, logger, disk.Open(), nil, chain, time.Second, m, true, bound)
	}
	seq, err := open()
	if err != nil {
		o.Fail("C10/cannot-open", "", -1, err.Error(), "opens")
		return o
	}
	cands := [][]c10Batch{{}}
	// the size limit a caller may pass along (the single sequencer hands out whole batches whatever it says)
	nextN := 0
	nextMaxBytes := func() uint64 {
		nextN++
		return []uint64{0, 0, 1, 10, 1 << 20}[(int(s.Cfg["mb"])+nextN)%5*int(s.Cfg["mb"]%2)]
	}
	restarts, crashes, rejected, dupContent, handed, diskErrs := 0, 0, 0, 0, 0, 0

	describe := func() string {
		var sb strings.Builder
		for ci, c := range cands {
			if ci > 0 {
				sb.WriteString(" OR ")
			}
			sb.WriteString("[")
			for i, b := range c {
				if i > 0 {
					sb.WriteString(", ")
				}
				sb.WriteString(c10Key(b))
			}
			sb.WriteString("]")
		}
		return sb.String()
	}

	doNext := func(step int, what string) bool {
		res, err := seq.GetNextBatch(ctx, coresequencer.GetNextBatchRequest{Id: chain, MaxBytes: nextMaxBytes()})
		if err != nil {
			o.Fail("C10/next-error", "", step, err.Error(), "next succeeds")
			return false
		}
		var got c10Batch
		if res != nil && res.Batch != nil {
			got = res.Batch.Transactions
		}
		var keep [][]c10Batch
		for _, c := range cands {
			if len(c) == 0 {
				if len(got) == 0 {
					keep = append(keep, c)
				}
				continue
			}
			if c10Key(c[0]) == c10Key(got) && len(got) > 0 {
				keep = append(keep, c10Clone(c[1:]))
			}
		}
		if len(keep) == 0 {
			class := "wrong-batch"
			if len(got) == 0 {
				class = "accepted-batch-missing"
			} else {
				inSome := false
				for _, c := range cands {
					for _, b := range c {
						if c10Key(b) == c10Key(got) {
							inSome = true
						}
					}
				}
				if inSome {
					class = "out-of-order"
				} else {
					class = "batch-reappeared-or-unknown"
				}
			}
			after := ""
			if restarts+crashes > 0 {
				after = "/after-restart"
			}
			o.Fail("C10/fifo-violated", "C10/fifo-violated/"+class+after, step,
				fmt.Sprintf("%s returned [%s]; model queue: %s", what, c10Key(got), describe()), "the head of the FIFO model (or an empty batch when the model is empty)")
			return false
		}
		if len(got) > 0 {
			handed++
		}
		cands = keep
		return true
	}

	for i, op := range s.Ops {
		crashK := -1
		kind := op.K
		if strings.HasPrefix(kind, "crash-") {
			kind = strings.TrimPrefix(kind, "crash-")
			crashK = int(op.A % 2)
		}
		// diskerr-submit: the datastore refuses the write of this submission (disk full, I/O error). The
		// submitter is told so: the submission is a rejected one, it leaves no trace, and everything the
		// property says about the accepted batches keeps holding afterwards.
		diskErr := false
		if strings.HasPrefix(kind, "diskerr-") {
			kind = strings.TrimPrefix(kind, "diskerr-")
			diskErr = true
		}
		switch kind {
		case "restart":
			restarts++
			// the operator may change the configured queue size between runs
			switch op.A % 4 {
			case 1:
				if bound > 1 {
					bound = bound / 2
					o.Count("restart-with-smaller-bound", 1)
				}
			case 2:
				bound += 2
				o.Count("restart-with-larger-bound", 1)
			case 3:
				bound = 1
				o.Count("restart-with-smaller-bound", 1)
			}
			disk.Fence().Kill()
			if seq, err = open(); err != nil {
				o.Fail("C10/cannot-reopen", "", i, err.Error(), "reopens")
				return o
			}
		case "submit", "submit-foreign", "submit-empty":
			b := c10Content(op)
			id := chain
			if kind == "submit-foreign" {
				id = []byte("other-chain")
			}
			if kind == "submit-empty" {
				b = nil
			}
			before := c10PrefixKeys(disk)
			if crashK >= 0 {
				disk.Arm(crashK)
			}
			refusedBefore := disk.Rejected
			if diskErr {
				disk.FailNextWrites(1)
			}
			_, err := seq.SubmitBatchTxs(ctx, coresequencer.SubmitBatchTxsRequest{Id: id, Batch: &coresequencer.Batch{Transactions: b}})
			fired := false
			if crashK >= 0 {
				fired = disk.Disarm()
			}
			if diskErr {
				disk.FailNextWrites(0) // a submission that never reached the disk leaves the fault unused
			}
			refused := disk.Rejected > refusedBefore
			if refused {
				diskErrs++
			}
			mustReject := kind == "submit-foreign"
			var next [][]c10Batch
			for _, c := range cands {
				full := len(c) >= bound
				switch {
				case fired:
					// unacknowledged: may or may not have taken effect (if it was acceptable at all)
					next = append(next, c)
					if !mustReject && !full && len(b) > 0 {
						next = append(next, append(c10Clone(c), b))
					}
				case mustReject || (full && len(b) > 0):
					if err != nil {
						next = append(next, c) // consistent: rejected, unchanged
					}
				case refused:
					// the disk refused the write: told to the submitter it is a rejection; kept quiet it is an
					// acknowledged batch like any other (and the final drain will look for it)
					if err != nil {
						next = append(next, c)
					} else {
						next = append(next, append(c10Clone(c), b))
					}
				case len(b) == 0:
					next = append(next, c)
				default:
					if err == nil {
						next = append(next, append(c10Clone(c), b)) // consistent: accepted
					}
				}
			}
			if len(next) == 0 {
				class := "rejected-although-not-full"
				if err == nil {
					class = "accepted-what-must-be-rejected"
				}
				o.Fail("C10/"+class, "", i, fmt.Sprintf("%s returned err=%v; model queue: %s; bound %d", kind, err, describe(), bound),
					"accepted iff chain id matches and fewer than bound batches are queued")
				return o
			}
			if err != nil && !fired {
				rejected++
				if after := c10PrefixKeys(disk); after != before {
					o.Fail("C10/rejected-submission-left-a-trace", "", i, fmt.Sprintf("keys before: %s; after: %s", before, after), "key space under the queue prefix unchanged")
					return o
				}
			}
			if len(b) > 0 && err == nil {
				for _, c := range cands {
					for _, x := range c {
						if c10Key(x) == c10Key(b) {
							dupContent++
						}
					}
				}
			}
			cands = dedupCands(next)
			if fired {
				crashes++
				if seq, err = open(); err != nil {
					o.Fail("C10/cannot-reopen", "", i, err.Error(), "reopens after crash")
					return o
				}
			}
		case "next":
			if crashK >= 0 {
				disk.Arm(crashK)
				res, err := seq.GetNextBatch(ctx, coresequencer.GetNextBatchRequest{Id: chain, MaxBytes: nextMaxBytes()})
				fired := disk.Disarm()
				if fired {
					crashes++
					// the caller died with the node: the batch was not handed out. Whether the pop is durable is open.
					var next [][]c10Batch
					for _, c := range cands {
						next = append(next, c)
					}
					cands = dedupCands(next)
					_ = res
					_ = err
					if seq, err = open(); err != nil {
						o.Fail("C10/cannot-reopen", "", i, err.Error(), "reopens after crash")
						return o
					}
					break
				}
				// crash point beyond the op: treat as a plain next whose result we must validate
				var got c10Batch
				if res != nil && res.Batch != nil {
					got = res.Batch.Transactions
				}
				var keep [][]c10Batch
				for _, c := range cands {
					if len(c) == 0 && len(got) == 0 {
						keep = append(keep, c)
					} else if len(c) > 0 && len(got) > 0 && c10Key(c[0]) == c10Key(got) {
						keep = append(keep, c10Clone(c[1:]))
					}
				}
				if len(keep) == 0 {
					o.Fail("C10/fifo-violated", "C10/fifo-violated/wrong-batch", i, fmt.Sprintf("next returned [%s]; model queue: %s", c10Key(got), describe()), "head of the FIFO model")
					return o
				}
				if len(got) > 0 {
					handed++
				}
				cands = keep
			} else if !doNext(i, "next") {
				return o
			}
		}
		maxLen := 0
		for _, c := range cands {
			if len(c) > maxLen {
				maxLen = len(c)
			}
		}
		o.States = append(o.States, fmt.Sprintf("q=%d c=%d", maxLen, len(cands)))
		o.Logf("%d %s cands=%s", i, op, describe())
	}
	// final: restart and drain; everything accepted and not yet handed out must come back, in order
	disk.Fence().Kill()
	restarts++
	if seq, err = open(); err != nil {
		o.Fail("C10/cannot-reopen", "", len(s.Ops), err.Error(), "reopens")
		return o
	}
	for k := 0; k < 64; k++ {
		allEmpty := true
		for _, c := range cands {
			if len(c) > 0 {
				allEmpty = false
			}
		}
		if !doNext(len(s.Ops)+k, "final drain next") {
			return o
		}
		if allEmpty {
			break
		}
	}
	o.Count("restart", restarts)
	o.Count("crash-inside-op", crashes)
	o.Count("rejected-submission", rejected)
	o.Count("fault:disk-refuses-submission-write", diskErrs)
	o.Count("identical-content-queued-twice", dupContent)
	o.Count("batches-handed-out", handed)
	o.NonTrivial = handed >= 2 && restarts+crashes >= 2
	return o
}

func dedupCands(cs [][]c10Batch) [][]c10Batch {
	seen := map[string]bool{}
	var out [][]c10Batch
	for _, c := range cs {
		parts := make([]string, len(c))
		for i, b := range c {
			parts[i] = c10Key(b)
		}
		k := strings.Join(parts, "##")
		if !seen[k] {
			seen[k] = true
			out = append(out, c)
		}
	}
	sort.SliceStable(out, func(i, j int) bool { return len(out[i]) < len(out[j]) })
	if len(out) > 64 {
		out = out[:64] // never reached with the generated crash counts; keeps the check bounded
	}
	return out
}

func c10Gen(r *rand.Rand, tier string) *sim.Scn {
	s := &sim.Scn{Cfg: map[string]int64{"bound": 1 + r.Int64N(8), "mb": r.Int64N(6)}}
	if r.IntN(40) == 0 {
		s.Cfg["conc"] = 1
		s.Cfg["concseed"] = r.Int64N(1 << 40)
	}
	n := 3 + r.IntN(40)
	pCrash := r.IntN(25)
	pDiskErr := []int{0, 0, 10, 25}[r.IntN(4)]
	pDistinct := r.IntN(2) // 0: few contents (identical batches likely), 1: also few but different mix
	for i := 0; i < n; i++ {
		var op sim.Op
		switch x := r.IntN(20); {
		case x < 9:
			op = sim.Op{K: "submit", B: r.Int64N(4), C: r.Int64N(3)}
			if pDistinct == 1 {
				op.C = 0
			}
		case x < 15:
			op = sim.Op{K: "next"}
		case x < 17:
			op = sim.Op{K: "restart", A: []int64{0, 0, 0, 1, 2, 3}[r.IntN(6)]}
		case x < 18:
			op = sim.Op{K: "submit-foreign", B: r.Int64N(4)}
		default:
			op = sim.Op{K: "submit-empty"}
		}
		if (op.K == "submit" || op.K == "next") && r.IntN(100) < pCrash {
			op.K = "crash-" + op.K
			op.A = r.Int64N(2)
		} else if op.K == "submit" && r.IntN(100) < pDiskErr {
			op.K = "diskerr-submit"
		}
		s.Ops = append(s.Ops, op)
	}
	return s
}

// ---- concurrent histories, checked with porcupine ----

type c10In struct {
	op  int // 0 submit, 1 next
	val string
}
type c10Out struct {
	ok  bool
	val string
}

func c10Porcupine(bound int) porcupine.Model {
	return porcupine.Model{
		Init: func() interface{} { return "" },
		Step: func(state, input, output interface{}) (bool, interface{}) {
			q := []string{}
			if st := state.(string); st != "" {
				q = strings.Split(st, ",")
			}
			in, out := input.(c10In), output.(c10Out)
			if in.op == 0 {
				if len(q) >= bound {
					return !out.ok, state
				}
				if !out.ok {
					return false, state
				}
				return true, strings.Join(append(q, in.val), ",")
			}
			if len(q) == 0 {
				return out.val == "", state
			}
			if out.val != q[0] {
				return false, state
			}
			return true, strings.Join(q[1:], ",")
		},
		Equal: func(a, b interface{}) bool { return a.(string) == b.(string) },
	}
}

// c10Concurrent runs one concurrent history on a real sequencer: 4 client tasks whose interleaving at
// every datastore operation is decided by a seeded ParkSched, few distinct contents (so identical
// batches are submitted by overlapping callers) mixed with unique ones, then a restart (new sequencer on
// the durable image) and a drain, all of it one porcupine history against the FIFO model.
func c10Concurrent(o *sim.Outcome, seed uint64, bound int) (porcupine.CheckResult, int, string) {
	ctx := context.Background()
	disk := sim.NewDisk(nil)
	m, _ := single.NopMetrics()
	chain := []byte("c10")
	seq, err := single.NewSequencerWithQueueSize(ctx, logging.Logger("verif"), disk.Open(), nil, chain, time.Second, m, true, bound)
	if err != nil {
		panic(err)
	}
	ps := sim.NewParkSched(seed)
	disk.Yield = ps.Yield
	var clock atomic.Int64
	var mu sync.Mutex
	var ops []porcupine.Operation
	clients := 4
	shared := seed%3 != 0 // two thirds of the histories use a small shared content set
	for c := 0; c < clients; c++ {
		c := c
		ps.Go(func() {
			r := rand.New(rand.NewPCG(seed, uint64(c)))
			for k := 0; k < 6; k++ {
				ps.Yield()
				var in c10In
				var out c10Out
				call := clock.Add(1)
				if r.IntN(3) != 0 {
					in = c10In{op: 0, val: fmt.Sprintf("v%d-%d", c, k)}
					if shared && r.IntN(3) != 0 {
						in.val = fmt.Sprintf("same%d", r.IntN(2))
					}
					_, err := seq.SubmitBatchTxs(ctx, coresequencer.SubmitBatchTxsRequest{Id: chain, Batch: &coresequencer.Batch{Transactions: [][]byte{[]byte(in.val)}}})
					out = c10Out{ok: err == nil}
				} else {
					in = c10In{op: 1}
					res, err := seq.GetNextBatch(ctx, coresequencer.GetNextBatchRequest{Id: chain})
					out = c10Out{ok: err == nil}
					if err == nil && res != nil && res.Batch != nil && len(res.Batch.Transactions) > 0 {
						out.val = string(bytes.Join(res.Batch.Transactions, []byte("+")))
					}
				}
				ret := clock.Add(1)
				mu.Lock()
				ops = append(ops, porcupine.Operation{ClientId: c, Input: in, Call: call, Output: out, Return: ret})
				mu.Unlock()
			}
		})
	}
	ts := time.Now()
	err = ps.Run()
	schedDur := time.Since(ts)
	if err != nil {
		return porcupine.Illegal, len(ops), "clients deadlocked: " + err.Error()
	}
	disk.Yield = nil
	o.Logf("concurrent schedule %v", ps.Trace)
	o.Count("interleaving-decisions", len(ps.Trace))
	o.Count("decisions-while-a-client-waited-for-a-lock", ps.Blocks)
	// restart on the durable image and drain: everything accepted and not handed out, once, in order
	seq2, err := single.NewSequencerWithQueueSize(ctx, logging.Logger("verif"), disk.Open(), nil, chain, time.Second, m, true, bound)
	if err != nil {
		return porcupine.Illegal, len(ops), "restart failed: " + err.Error()
	}
	for k := 0; k <= clients*6; k++ {
		call := clock.Add(1)
		res, err := seq2.GetNextBatch(ctx, coresequencer.GetNextBatchRequest{Id: chain})
		out := c10Out{ok: err == nil}
		if err == nil && res != nil && res.Batch != nil && len(res.Batch.Transactions) > 0 {
			out.val = string(bytes.Join(res.Batch.Transactions, []byte("+")))
		}
		ops = append(ops, porcupine.Operation{ClientId: clients, Input: c10In{op: 1}, Call: call, Output: out, Return: clock.Add(1)})
		if out.val == "" {
			break
		}
	}
	t0 := time.Now()
	res := porcupine.CheckOperationsTimeout(c10Porcupine(bound), ops, 10*time.Second)
	if os.Getenv("VERIF_DEBUG") != "" {
		fmt.Fprintf(os.Stderr, "PORCUPINE %v ops=%d sched=%v\n", time.Since(t0), len(ops), schedDur)
	}
	detail := ""
	if res == porcupine.Illegal {
		var sb strings.Builder
		for _, op := range ops {
			in, out := op.Input.(c10In), op.Output.(c10Out)
			if in.op == 0 {
				fmt.Fprintf(&sb, "[c%d %d-%d submit %s ok=%v] ", op.ClientId, op.Call, op.Return, in.val, out.ok)
			} else {
				fmt.Fprintf(&sb, "[c%d %d-%d next -> %q] ", op.ClientId, op.Call, op.Return, out.val)
			}
		}
		detail = fmt.Sprintf("schedule %v; history (client %d = after restart): %s", ps.Trace, clients, sb.String())
	}
	return res, len(ops), detail
}

func TestC10(t *testing.T) {
	sim.Main(t, &sim.Check{
		ID:    "C10",
		Level: "exploration",
		Rule: "seeded histories of submit (4 contents x 3 sizes, so identical batches recur; empty; foreign chain id; beyond the bound), next, restart (new sequencer on the durable image, with the same, a smaller or a larger configured bound) and a crash cutting the durable write inside submit/next, " +
			"checked operation by operation against a FIFO model (a set of candidate queues while an operation cut by a crash is undetermined), plus a final restart-and-drain; " +
			"each scenario also runs one concurrent history (4 client tasks, interleaved at every datastore operation by a seeded park-and-release scheduler; shared and unique contents; then a restart and a drain) checked with porcupine against the same FIFO model. " +
			"distinct = distinct scenario hash; non-trivial = at least 2 batches handed out and at least 2 restarts/crashes",
		Assumptions: []string{"simulated disk returns query results in key order (as badger does)", "porcupine Unknown (timeout) is counted as inconclusive, never as violation"},
		Components:  map[string]string{"sequencers/single (Sequencer, BatchQueue)": "real", "datastore": "stub (SimDatastore)"},
		Gen:         c10Gen,
		Run: func(t *testing.T, s *sim.Scn) *sim.Outcome {
			o := c10Run(t, s)
			if o.V == nil && s.Cfg["conc"] == 1 {
				res, n, detail := c10Concurrent(o, uint64(s.Cfg["concseed"]), int(s.Cfg["bound"]))
				o.Count("porcupine-histories", 1)
				o.Count("porcupine-ops", n)
				switch res {
				case porcupine.Illegal:
					o.Fail("C10/concurrent-history-not-linearizable", "", -1, "porcupine: Illegal; "+detail, "linearizable w.r.t. the bounded FIFO model, including the drain after a restart")
				case porcupine.Unknown:
					o.Count("porcupine-inconclusive", 1)
				}
			}
			return o
		},
		CfgMin:      map[string]int64{"bound": 1},
		QuickBudget: 20 * time.Second, ThoroughBudget: 8 * time.Minute,
	})
}
