package checks

import (
	"context"
	"fmt"
	"math/rand/v2"
	"os"
	"sync"
	"testing"
	"time"

	"verif/harness/sim"
)

// C08 — the pending-submission limit throttles but never deadlocks block production.
//
// World: real aggregator with a pending limit, real submission loops run for windows of simulated
// time, simulated DA with outages (errors only, so "accepted" and "acknowledged" coincide).
// Oracle: a production step that declines (height unchanged, no error) is legal only while at least
// `limit` committed blocks have a header or non-empty data the DA layer has not accepted; once the DA
// accepts, every round (header loop, data loop, produce) commits a block.

func c08Run(t *testing.T, s *sim.Scn) *sim.Outcome {
	o := sim.NewOutcome()
	if p := sim.Bubble(t, func() { c08Body(t, s, o) }); p != nil {
		o.Fail("C08/panic", "", -1, fmt.Sprint(p), "no panic")
	}
	return o
}

// c08LoopBody (cfg loops=1): the real aggregation loop (lazy or normal mode), the real reaper-less mempool
// notifications and the real header and data submission loops run together as goroutines under the fake
// clock, with a pending limit. Phase 1: the DA layer refuses every submission for a seeded time (long enough
// for the limit to be reached and, in lazy mode, for the idle timer to fire while production is throttled).
// Phase 2: the DA layer accepts. On an idle chain production must resume: within phase 2 the height must
// grow by at least one block per idle interval (lazy) / block interval (normal), less a settling allowance.
func c08LoopBody(t *testing.T, s *sim.Scn, o *sim.Outcome) {
	start := time.Now()
	limit := uint64(max64(1, s.Cfg["limit"]))
	bt := time.Duration(max64(100, s.Cfg["bt"])) * time.Millisecond
	lazy := s.Cfg["lazy"] == 1
	idle := time.Duration(max64(2, s.Cfg["idlex"])) * bt
	dat := time.Duration(max64(200, s.Cfg["dat"])) * time.Millisecond
	w := sim.NewWorld(t, "c08l", 1)
	defer w.Close()
	n := w.AddNode(sim.NodeCfg{Name: "seq", Aggregator: true, MaxPending: limit, MempoolTTL: 1, BlockTime: bt, DABlockTime: dat, LazyMode: lazy, LazyInterval: idle})
	if err := n.StartNode(); err != nil {
		o.Fail("C08/cannot-start", "", -1, err.Error(), "starts")
		return
	}
	w.DA.AutoAdvance = true
	// a DA layer that takes its time to answer (honouring the caller's deadline): seconds, far below the minute a
	// submission attempt is given
	lat := time.Duration(s.Cfg["dalat"]) * time.Millisecond
	w.DA.Latency = lat
	ctx, cancel := context.WithCancel(context.Background())
	errCh := make(chan error, 4)
	var wg sync.WaitGroup
	run := func(f func()) {
		wg.Add(1)
		go func() {
			defer wg.Done()
			f()
		}()
	}
	run(func() { n.M.AggregationLoop(ctx, errCh) })
	run(func() { n.M.HeaderSubmissionLoop(ctx) })
	run(func() { n.M.DataSubmissionLoop(ctx) })
	stop := func() {
		cancel()
		wg.Wait()
	}
	// phase 1: outage
	w.DA.Outage = true
	// what the unavailable DA layer answers: a generic error, or one or all of the classified ones (timed out,
	// already in mempool, deadline, sequence error, a cancellation reported by the DA side although the
	// node's own context is live)
	okinds := [][]sim.SubmitKind{nil, {sim.SubTimeout}, {sim.SubInMempool}, {sim.SubDeadline}, {sim.SubSeqErr}, {sim.SubCanceled}, {sim.SubCanceledWrapped},
		{sim.SubGeneric, sim.SubTimeout, sim.SubCanceled, sim.SubDeadline, sim.SubInMempool, sim.SubCanceledWrapped, sim.SubSeqErr}}
	w.DA.OutageKinds = okinds[int(s.Cfg["okind"])%len(okinds)]
	o.Count(fmt.Sprintf("loops:outage-kind-%d", int(s.Cfg["okind"])%len(okinds)), 1)
	outage := time.Duration(s.Cfg["outage"]) * time.Millisecond
	txEvery := s.Cfg["txevery"]
	for el, k := time.Duration(0), int64(0); el < outage; el, k = el+bt, k+1 {
		if txEvery > 0 && k%txEvery == 0 {
			n.Exec.InjectTx([]byte(fmt.Sprintf("k%d=v", k)))
			n.Reap()
		}
		time.Sleep(bt)
	}
	hOut := n.Height()
	o.Count("loops:blocks-before-recovery", int(hOut))
	// phase 2: the DA layer accepts again; the chain is idle
	w.DA.Outage = false
	settle := 35*(dat+lat) + 2*idle // the submission loops finish their retry round (30 attempts) and flush the backlog
	time.Sleep(settle)
	h1 := n.Height()
	// the sustainable rate: one block per block/idle interval, throttled to `limit` blocks per DA block time
	// (the submission loops flush once per DA block time)
	per := idle
	if !lazy {
		per = bt
	}
	unit := per
	if thr := (dat + 2*lat) / time.Duration(limit); thr > unit {
		unit = thr
	}
	window := 10 * unit
	time.Sleep(window)
	h2 := n.Height()
	select {
	case err := <-errCh:
		stop()
		o.Fail("C08/production-error", "", -1, fmt.Sprintf("aggregation loop reported: %v", err), "no error")
		return
	default:
	}
	stop()
	want := uint64(5)
	if h2-h1 < want {
		mode := "normal"
		if lazy {
			mode = "lazy"
		}
		o.Fail("C08/production-stopped-with-accepting-da", "C08/production-stopped-with-accepting-da/real-loops/"+mode, -1,
			fmt.Sprintf("%s mode, limit %d, block interval %v, idle interval %v: after a DA outage of %v (height %d at its end) and %v with an accepting DA layer, the idle chain grew from %d to %d in a further %v (pending headers %d, pending data %d); at least %d blocks are due (10 sustainable block periods of %v)", mode, limit, bt, idle, outage, hOut, settle, h1, h2, window, n.M.VerifNumPendingHeaders(), n.M.VerifNumPendingData(), want, unit),
			"with a DA layer that accepts submissions, block production never stops permanently - in particular not on an idle chain")
		return
	}
	o.Count("loops:runs", 1)
	o.SimTime = time.Since(start)
	o.NonTrivial = hOut >= 1
}

func c08Body(t *testing.T, s *sim.Scn, o *sim.Outcome) {
	if s.Cfg["loops"] == 1 {
		c08LoopBody(t, s, o)
		return
	}
	start := time.Now()
	ih := uint64(max64(1, s.Cfg["ih"]))
	limit := uint64(max64(1, s.Cfg["limit"]))
	w := sim.NewWorld(t, "c08", ih)
	defer w.Close()
	n := w.AddNode(sim.NodeCfg{Name: "seq", Aggregator: true, MaxPending: limit, MempoolTTL: 1})
	r := newAggRun(w, n, o)
	if !r.start(-1, "C08") {
		return
	}
	l := sim.NewLedger(w, n)
	w.DA.AutoAdvance = true
	waiting := func() uint64 {
		var c uint64
		h := n.Height()
		for x := ih; x <= h; x++ {
			_, hok := l.AccH[x]
			dok := true
			if empty, err := l.BlockEmpty(x); err == nil && !empty {
				_, dok = l.AccD[x]
			}
			if !hok || !dok {
				c++
			}
		}
		return c
	}
	allEmpty := true
	produce := func(i int, what string) bool {
		hb := n.Height()
		_, err := r.exec(sim.Op{K: "produce"}, -1)
		if oracle, msg := l.Scan(); oracle != "" {
			o.Fail(oracle, "", i, msg, "sound submissions")
			return false
		}
		h := n.Height()
		if err != nil {
			o.Fail("C08/production-error", "", i, fmt.Sprintf("%s: %v", what, err), "no error")
			return false
		}
		if h == hb {
			o.Count("declined", 1)
			if wt := waiting(); wt < limit {
				class := "mixed-chain"
				if allEmpty {
					class = "all-empty-chain"
				}
				o.Fail("C08/declined-without-enough-pending", "C08/declined-without-enough-pending/"+class, i,
					fmt.Sprintf("%s: production declined at height %d with limit %d although only %d committed block(s) still wait for DA acceptance (node counts headers=%d data=%d)", what, h, limit, wt, n.M.VerifNumPendingHeaders(), n.M.VerifNumPendingData()),
					"declines only while `limit` blocks are genuinely waiting")
				return false
			}
		} else {
			o.Count("produced", 1)
		}
		return true
	}
	for i, op := range s.Ops {
		switch op.K {
		case "produce":
			time.Sleep(time.Second)
			if op.A%4 == 3 {
				allEmpty = false
				r.exec(sim.Op{K: "same", A: op.B}, -1)
				o.Count("identical-tx-list-batches", 1)
			} else if op.A%2 == 1 {
				allEmpty = false
				r.exec(sim.Op{K: "tx", A: op.B}, -1)
				r.exec(sim.Op{K: "reap"}, -1)
			}
			if !produce(i, "produce") {
				return
			}
		case "da":
			// outages only: timeout, in-mempool, too-big, deadline, generic, seq-err
			kinds := []int64{2, 3, 4, 5, 6, 9}
			cnt := 1 + op.B%6
			for j := int64(0); j < cnt; j++ {
				w.DA.SubmitScript = append(w.DA.SubmitScript, sim.SubmitOutcome{Kind: sim.SubmitKind(kinds[(op.A+j)%int64(len(kinds))])})
			}
			o.Count("da-outage-entries", int(cnt))
		case "daprefix":
			w.DA.SubmitScript = append(w.DA.SubmitScript, sim.SubmitOutcome{Kind: sim.SubPrefix, N: int(op.A), Advance: true})
		case "stop", "kill":
			r.exec(op, -1)
			w.DA.SubmitScript = nil
			if !r.start(i, "C08") {
				return
			}
			o.Count("restarts", 1)
		case "subh", "subd":
			r.exec(op, -1)
			if oracle, msg := l.Scan(); oracle != "" {
				o.Fail(oracle, "", i, msg, "sound submissions")
				return
			}
		}
		o.States = append(o.States, fmt.Sprintf("%s wait=%d", n.AbstractState(), waiting()))
		o.Logf("%d %s %s waiting=%d", i, op, n.AbstractState(), waiting())
	}
	// the DA accepts from now on: every round must commit a block
	w.DA.SubmitScript = nil
	rounds := 4 + int(limit)
	hStart := n.Height()
	for j := 0; j < rounds; j++ {
		r.exec(sim.Op{K: "subh", A: 90}, -1)
		r.exec(sim.Op{K: "subd", A: 90}, -1)
		time.Sleep(time.Second)
		if !produce(len(s.Ops)+j, fmt.Sprintf("recovery round %d", j)) {
			return
		}
	}
	if got := n.Height() - hStart; got < uint64(rounds-1) {
		o.Fail("C08/production-stopped-with-accepting-da", "", len(s.Ops), fmt.Sprintf("%d rounds with an accepting DA layer produced only %d block(s) (limit %d)", rounds, got, limit), "a block per round")
		return
	}
	o.SimTime = time.Since(start)
	o.NonTrivial = o.Counters["produced"] >= 3 && (o.Counters["declined"] > 0 || o.Counters["da-outage-entries"] > 0)
}

func c08LoopGen(r *rand.Rand) *sim.Scn {
	return &sim.Scn{Cfg: map[string]int64{"loops": 1, "limit": 1 + r.Int64N(6), "lazy": []int64{1, 1, 0}[r.IntN(3)], "bt": []int64{100, 250, 1000}[r.IntN(3)],
		"idlex": 2 + r.Int64N(6), "dat": []int64{200, 1000, 3000}[r.IntN(3)], "outage": []int64{0, 2000, 15000, 60000, 200000}[r.IntN(5)], "txevery": []int64{0, 0, 1, 5}[r.IntN(4)], "okind": r.Int64N(8), "dalat": []int64{0, 0, 500, 4000, 9000}[r.IntN(5)]}}
}

func c08Gen(r *rand.Rand, tier string) *sim.Scn {
	if r.IntN(12) == 0 && os.Getenv("VERIF_NO_WHOLE") == "" {
		return c08LoopGen(r)
	}
	s := &sim.Scn{Cfg: map[string]int64{"ih": 1, "limit": 1 + r.Int64N(8)}}
	if r.IntN(4) == 0 {
		s.Cfg["ih"] = 2 + r.Int64N(49)
	}
	n := 6 + r.IntN(40)
	if tier == "thorough" && r.IntN(3) == 0 {
		n = 40 + r.IntN(100)
	}
	mix := r.IntN(3) // 0 all-empty, 1 mixed, 2 all non-empty
	pOut := r.IntN(50)
	pSame := 0
	if r.IntN(3) == 0 {
		pSame = 20 + r.IntN(60)
	}
	for i := 0; i < n; i++ {
		switch x := r.IntN(100); {
		case x < 50:
			a := int64(0)
			if mix == 2 || (mix == 1 && r.IntN(2) == 0) {
				a = 1
				if r.IntN(100) < pSame {
					a = 3
				}
			}
			s.Ops = append(s.Ops, sim.Op{K: "produce", A: a, B: r.Int64N(3)})
		case x < 85:
			if r.IntN(100) < pOut {
				s.Ops = append(s.Ops, sim.Op{K: "da", A: r.Int64N(6), B: r.Int64N(6)})
			} else if r.IntN(10) == 0 {
				s.Ops = append(s.Ops, sim.Op{K: "daprefix", A: r.Int64N(4)})
			}
			op := sim.Op{K: []string{"subh", "subd"}[r.IntN(2)], A: r.Int64N(3)}
			if r.IntN(6) == 0 {
				op.A = 90
			}
			s.Ops = append(s.Ops, op)
		case x < 93:
			s.Ops = append(s.Ops, sim.Op{K: "da", A: r.Int64N(6), B: r.Int64N(6)})
		default:
			s.Ops = append(s.Ops, sim.Op{K: []string{"stop", "kill"}[r.IntN(2)]})
		}
	}
	return s
}

func TestC08(t *testing.T) {
	sim.Main(t, &sim.Check{
		ID:    "C08",
		Level: "exploration",
		Rule: "seeded histories with pending limit 1..8, initial height 1..50, all-empty / mixed / all-non-empty chains, DA outages of seeded finite length (timed out, already in mempool, too big, deadline, generic, sequence error) and partial acceptance, runs of the real submission loops; then an accepting DA and 4+limit rounds that must each commit a block. One scenario in twelve runs the real aggregation loop (lazy or normal mode) together with the real header and data submission loops as goroutines through a DA outage of 0-200 s and a recovery; afterwards the idle chain must grow by at least 5 blocks in 10 sustainable block periods (max of block/idle interval and DA block time / limit). " +
			"distinct = distinct scenario hash; non-trivial = at least 3 blocks produced and at least one declined production or DA outage entry executed",
		Assumptions: []string{"only outages are injected (no lost acknowledgements), so 'genuinely waiting' and 'not yet acknowledged' coincide", "the single sequencer always returns a batch, so an unchanged height without error means the node declined"},
		Components:  map[string]string{"block.Manager.publishBlock (limit check)": "real", "pending headers/data": "real", "submission loops": "real", "block.Manager.AggregationLoop (lazy and normal; real-loops family)": "real", "sequencers/single": "real", "DA": "stub (SimDA)", "executor": "stub (SimExec)"},
		Gen:         c08Gen,
		Run:         c08Run,
		CfgMin:      map[string]int64{"ih": 1, "limit": 1},
		QuickBudget: 30 * time.Second, ThoroughBudget: 10 * time.Minute,
	})
}
