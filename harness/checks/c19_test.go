package checks

import (
	"bytes"
	"crypto/aes"
	"crypto/cipher"
	"crypto/sha256"
	"crypto/sha512"
	"embed"
	"encoding/hex"
	"encoding/json"
	"fmt"
	"math/rand/v2"
	"os"
	"path/filepath"
	"strings"
	"sync"
	"testing"
	"time"

	"github.com/libp2p/go-libp2p/core/crypto"

	filesigner "github.com/evstack/ev-node/pkg/signer/file"
	"github.com/evstack/ev-node/types"

	"verif/harness/sim"
)

// C19 — the proposer key file protects the key and yields a working, matching signer.
//
// "Disk" = the key directory image written by the real ImportPrivateKey / CreateFileSystemSigner.
// Faults on the image: every truncation length (which covers every torn state of an in-place write),
// every single-byte position x {each of the 8 bit flips (thorough) / 2 bit flips + a replacement byte
// (quick)}, files in the legacy salt-less format, wrong passphrases. Oracle: Load either fails or
// returns a signer that is the original key: the public key it reports is the one created, a signature
// it makes verifies under that reported key, and its address is types.KeyAddress of that key (the
// derivation full nodes use). Never a panic.
//
// cfg: pass (passphrase class), fmt (0 current format, 1 legacy salt-less)
// ops: trunc(A=len) | flip(A=pos,B=xor mask) | set(A=pos,B=value) | wrongpass(A=class) | export

const c19Classes = 8

var c19Key = sim.KeyFromSeed("c19-proposer")

func c19Pass(class int64) []byte {
	switch class % c19Classes {
	case 0:
		return []byte{}
	case 1:
		return []byte("p")
	case 2:
		return bytes.Repeat([]byte("long-passphrase-"), 256) // 4 KB
	case 3:
		return []byte{0xff, 0xfe, 0x00, 0x80, 'x', 0xc3, 0x28}
	case 4:
		return []byte("secret\n") // as read from a file or a pipe
	case 5:
		return []byte("secret\r\n")
	case 6:
		return []byte(" secret\t ")
	default:
		return []byte("Secret\x00")
	}
}

// legacyFallbackKey is the legacy (salt-less) key derivation of the file format.
func legacyFallbackKey(pass []byte) []byte {
	if len(pass) >= 32 {
		return pass[:32]
	}
	key := make([]byte, 32)
	copy(key, pass)
	for i := len(pass); i < 32; i++ {
		key[i] = pass[i%len(pass)] ^ byte(i)
	}
	return key
}

var (
	c19Mu    sync.Mutex
	c19Cache = map[string][]byte{} // pass/fmt -> pristine file image
)

// c19Image returns the pristine key file for a passphrase class and format.
func c19Image(passClass, format int64) ([]byte, error) {
	k := fmt.Sprintf("%d/%d", passClass%c19Classes, format%2)
	c19Mu.Lock()
	defer c19Mu.Unlock()
	if img, ok := c19Cache[k]; ok {
		return img, nil
	}
	dir, err := os.MkdirTemp("", "verif-c19-")
	if err != nil {
		return nil, err
	}
	defer os.RemoveAll(dir)
	raw, _ := c19Key.Raw()
	if err := filesigner.ImportPrivateKey(dir, append([]byte(nil), raw...), c19Pass(passClass)); err != nil {
		return nil, err
	}
	img, err := os.ReadFile(filepath.Join(dir, "signer.json"))
	if err != nil {
		return nil, err
	}
	if format%2 == 1 {
		// legacy file: no salt, key derived by the legacy function (not defined for an empty passphrase)
		pass := c19Pass(passClass)
		if len(pass) == 0 {
			pass = []byte("p")
		}
		var m map[string][]byte
		if err := json.Unmarshal(img, &m); err != nil {
			return nil, err
		}
		block, _ := aes.NewCipher(legacyFallbackKey(pass))
		gcm, _ := cipher.NewGCM(block)
		nonce := bytes.Repeat([]byte{7}, gcm.NonceSize())
		m["priv_key_encrypted"] = gcm.Seal(nil, nonce, raw, nil)
		m["nonce"] = nonce
		delete(m, "salt")
		img, _ = json.Marshal(m)
	}
	c19Cache[k] = img
	return img, nil
}

// c19GoldenLens: key files written by the tree as it was when the check was built (testdata/c19golden), for
// passphrases of these lengths; c19GoldenPass(n) is the passphrase. A later tree must still open them.
var c19GoldenLens = []int{1, 16, 64, 65, 300, 4096}

func c19GoldenPass(n int) []byte {
	p := make([]byte, n)
	for i := range p {
		p[i] = byte('a' + (i*7+n)%26)
	}
	return p
}

//go:embed testdata/c19golden/*.json
var c19GoldenFS embed.FS

func c19Golden(o *sim.Outcome) {
	for _, n := range c19GoldenLens {
		img, err := c19GoldenFS.ReadFile(fmt.Sprintf("testdata/c19golden/len%d.json", n))
		if err != nil {
			panic("INFRA: " + err.Error())
		}
		dir, _ := os.MkdirTemp("", "verif-c19g-")
		_ = os.WriteFile(filepath.Join(dir, "signer.json"), img, 0o600)
		sg, lerr := filesigner.LoadFileSystemSigner(dir, c19GoldenPass(n))
		os.RemoveAll(dir)
		if lerr != nil {
			o.Fail("C19/stored-key-file-no-longer-loads", fmt.Sprintf("C19/stored-key-file-no-longer-loads/len=%d", n), 0,
				fmt.Sprintf("a key file written earlier by this code base under a %d-byte passphrase does not load with that passphrase: %v", n, lerr), "a key saved under a passphrase loads with that passphrase")
			return
		}
		pub, err := sg.GetPublic()
		if err != nil || !pub.Equals(c19Key.GetPublic()) {
			o.Fail("C19/loaded-a-different-key", "C19/loaded-a-different-key/stored-file", 0, fmt.Sprintf("stored key file (%d-byte passphrase): the loaded signer reports another public key (%v)", n, err), "loads to the same key")
			return
		}
		o.Count("stored-key-files-loaded", 1)
	}
	o.NonTrivial = true
}

func c19Run(t *testing.T, s *sim.Scn) *sim.Outcome {
	o := sim.NewOutcome()
	if s.Cfg["golden"] == 1 {
		c19Golden(o)
		return o
	}
	passClass, format := s.Cfg["pass"], s.Cfg["fmt"]
	pass := c19Pass(passClass)
	if format%2 == 1 && len(pass) == 0 {
		pass = []byte("p")
	}
	img, err := c19Image(passClass, format)
	if err != nil {
		panic(fmt.Sprintf("INFRA: cannot create key file: %v", err))
	}
	file := append([]byte(nil), img...)
	usePass := append([]byte(nil), pass...)
	wrong := false
	doExport := false
	inPlace := false
	reformatted := false
	what := "pristine file"
	for _, op := range s.Ops {
		switch op.K {
		case "trunc":
			n := int(op.A) % (len(file) + 1)
			file = file[:n]
			what = fmt.Sprintf("file truncated to %d of %d bytes", n, len(img))
			o.Count("truncations", 1)
		case "flip":
			if len(file) == 0 {
				continue
			}
			pos := int(op.A) % len(file)
			mask := byte(1 << (op.B % 8))
			file[pos] ^= mask
			what = fmt.Sprintf("byte %d (in field %s) xor %#02x", pos, c19Field(img, pos), mask)
			o.Count("bit-flips", 1)
		case "set":
			if len(file) == 0 {
				continue
			}
			pos := int(op.A) % len(file)
			file[pos] = byte(op.B)
			what = fmt.Sprintf("byte %d (in field %s) replaced by %#02x", pos, c19Field(img, pos), byte(op.B))
			o.Count("byte-replacements", 1)
		case "wrongpass":
			w := c19Pass(op.A)
			// B > 0: a near miss derived from the right passphrase
			switch op.B % 16 {
			case 10:
				d := sha256.Sum256(pass) // what a key derivation that pre-hashes long passphrases would really use
				w = d[:]
			case 11:
				d := sha256.Sum256(pass)
				w = []byte(hex.EncodeToString(d[:]))
			case 12:
				d := sha512.Sum512(pass)
				w = d[:]
			case 13:
				if len(pass) > 64 {
					w = pass[:64]
				}
			case 14:
				if len(pass) > 32 {
					w = pass[:32]
				}
			case 15:
				if len(pass) > 128 {
					w = pass[:128]
				}
			case 1:
				w = append(append([]byte(nil), pass...), '\n')
			case 2:
				w = append(append([]byte(nil), pass...), '\r', '\n')
			case 3:
				w = bytes.TrimRight(pass, "\r\n")
			case 4:
				w = bytes.TrimSpace(pass)
			case 5:
				w = append(append([]byte(nil), pass...), ' ')
			case 6:
				w = append(append([]byte(nil), pass...), 0)
			case 7:
				if len(pass) > 0 {
					w = pass[:len(pass)-1]
				}
			case 8:
				w = bytes.ToUpper(pass)
			case 9:
				w = bytes.ToLower(pass)
			}
			if op.B%16 != 0 {
				o.Count("near-miss-passphrases", 1)
			}
			if bytes.Equal(w, pass) {
				w = append(append([]byte(nil), pass...), 'x')
			}
			usePass = w
			wrong = true
			what = "wrong passphrase"
			o.Count("wrong-passphrases", 1)
		case "export":
			doExport = true
			inPlace = op.A%2 == 1
		case "reformat":
			// the same key file written by another tool: indented and/or with an additional (ignored) field; it is
			// longer than what the package writes
			var m map[string]json.RawMessage
			if json.Unmarshal(file, &m) == nil {
				if op.A%3 != 0 {
					m["comment"] = json.RawMessage(`"` + strings.Repeat("x", 40+int(op.B%200)) + `"`)
				}
				if op.A%3 != 1 {
					file, _ = json.MarshalIndent(m, "", "    ")
				} else {
					file, _ = json.Marshal(m)
				}
				reformatted = true
				what = "key file re-encoded by another tool (indented / extra field)"
				o.Count("reformatted-files", 1)
			}
		}
	}
	dir, err := os.MkdirTemp("", "verif-c19-")
	if err != nil {
		panic(err)
	}
	defer os.RemoveAll(dir)
	if err := os.WriteFile(filepath.Join(dir, "signer.json"), file, 0o600); err != nil {
		panic(err)
	}
	field := ""
	for _, op := range s.Ops {
		if op.K == "flip" || op.K == "set" {
			field = "/field=" + c19Field(img, int(op.A)%len(img))
		}
	}
	mustLoad := !wrong
	for _, op := range s.Ops {
		if op.K == "trunc" || op.K == "flip" || op.K == "set" {
			mustLoad = false
		}
	}
	verify := func(dir string, p []byte, what string) bool {
		var sg interface {
			Sign([]byte) ([]byte, error)
			GetPublic() (crypto.PubKey, error)
			GetAddress() ([]byte, error)
		}
		var lerr error
		func() {
			defer func() {
				if r := recover(); r != nil {
					sig := "C19/panic-on-load" + field
					if len(p) == 0 {
						sig += "/empty-passphrase"
					}
					o.Fail("C19/panic-on-load", sig, 0, fmt.Sprintf("%s: Load panicked: %v", what, r), "an error or a usable signer, never a panic")
				}
			}()
			sg, lerr = filesigner.LoadFileSystemSigner(dir, append([]byte(nil), p...))
		}()
		if o.V != nil {
			return false
		}
		if lerr != nil {
			o.Count("load-refused", 1)
			if mustLoad {
				o.Fail("C19/undamaged-file-does-not-load", fmt.Sprintf("C19/undamaged-file-does-not-load/pass=%d/fmt=%d", passClass%c19Classes, format%2), 0,
					fmt.Sprintf("%s (passphrase class %d, %d bytes; format %d): Load with the right passphrase fails: %v", what, passClass%c19Classes, len(p), format%2, lerr), "a key saved under a passphrase loads with that passphrase")
				return false
			}
			return true
		}
		o.Count("load-succeeded", 1)
		if wrong {
			sig := "C19/wrong-passphrase-loads"
			if format%2 == 1 && len(pass) >= 32 && len(p) >= 32 && bytes.Equal(p[:32], pass[:32]) {
				sig += "/legacy-format/same-first-32-bytes"
			}
			o.Fail("C19/wrong-passphrase-loads", sig, 0, fmt.Sprintf("%s (%d bytes instead of %d, format %d): a signer was returned", what, len(p), len(pass), format%2), "a wrong passphrase never yields a usable signer")
			return false
		}
		pub, err := sg.GetPublic()
		if err != nil || pub == nil {
			o.Fail("C19/loaded-signer-unusable", "C19/loaded-signer-unusable"+field, 0, fmt.Sprintf("%s: Load succeeded but GetPublic fails: %v", what, err), "Load fails or the signer works")
			return false
		}
		msg := []byte("verif-c19-message")
		sigb, err := sg.Sign(msg)
		if err != nil {
			o.Fail("C19/loaded-signer-unusable", "C19/loaded-signer-unusable"+field, 0, fmt.Sprintf("%s: Load succeeded but Sign fails: %v", what, err), "Load fails or the signer works")
			return false
		}
		if ok, err := pub.Verify(msg, sigb); err != nil || !ok {
			o.Fail("C19/signature-does-not-verify-under-reported-key", "C19/signature-does-not-verify-under-reported-key"+field, 0,
				fmt.Sprintf("%s: Load succeeded, but a signature made by the loaded signer does not verify under the public key it reports", what), "signatures verify under the reported public key")
			return false
		}
		if !pub.Equals(c19Key.GetPublic()) {
			o.Fail("C19/loaded-a-different-key", "C19/loaded-a-different-key"+field, 0, what+": the loaded signer reports a public key other than the one saved", "loads to the same key")
			return false
		}
		addr, err := sg.GetAddress()
		if err != nil || !bytes.Equal(addr, types.KeyAddress(pub)) {
			o.Fail("C19/address-not-derived-from-key", "", 0, fmt.Sprintf("%s: address %x is not the address full nodes derive from the reported key (%x)", what, addr, types.KeyAddress(pub)), "address = KeyAddress(public key)")
			return false
		}
		return true
	}
	if !verify(dir, usePass, what) {
		return o
	}
	if doExport && !wrong && (len(s.Ops) == 1 || (reformatted && len(s.Ops) == 2)) {
		raw, err := filesigner.ExportPrivateKey(dir, append([]byte(nil), pass...))
		if err != nil {
			o.Fail("C19/export-failed", "", 0, err.Error(), "export of a pristine file with the right passphrase succeeds")
			return o
		}
		dir2, _ := os.MkdirTemp("", "verif-c19-")
		defer os.RemoveAll(dir2)
		if inPlace {
			dir2 = dir // import over the file the key was exported from (in-place re-encryption / format upgrade)
			o.Count("in-place-imports", 1)
		}
		p2 := c19Pass(passClass + 1)
		if err := filesigner.ImportPrivateKey(dir2, raw, append([]byte(nil), p2...)); err != nil {
			o.Fail("C19/import-failed", "", 0, err.Error(), "import of an exported key succeeds")
			return o
		}
		wrong = false
		mustLoad = true
		before := o.Counters["load-succeeded"]
		if !verify(dir2, p2, "export -> import -> load") {
			return o
		}
		if o.Counters["load-succeeded"] == before {
			o.Fail("C19/export-import-does-not-load", "", 0, "the re-imported key file does not load with its passphrase", "export followed by import preserves the key")
			return o
		}
		o.Count("export-import-roundtrips", 1)
	}
	o.NonTrivial = len(s.Ops) >= 1
	o.States = append(o.States, fmt.Sprintf("%d/%d/%v", passClass%c19Classes, format%2, o.Counters["load-succeeded"] > 0))
	return o
}

// c19Field names the JSON field a byte position of the pristine image lies in.
func c19Field(img []byte, pos int) string {
	last := "structure"
	keys := []string{"priv_key_encrypted", "nonce", "pub_key", "salt"}
	best := -1
	for _, k := range keys {
		i := bytes.Index(img, []byte(`"`+k+`"`))
		if i >= 0 && i <= pos && i > best {
			best = i
			if pos < i+len(k)+2 {
				last = "name:" + k
			} else {
				last = k
			}
		}
	}
	return last
}

func c19Enumerate(tier string, run func(*sim.Scn) *sim.Outcome) string {
	run(&sim.Scn{Cfg: map[string]int64{"golden": 1}})
	var scns []*sim.Scn
	total := 0
	for pass := int64(0); pass < c19Classes; pass++ {
		for format := int64(0); format < 2; format++ {
			img, err := c19Image(pass, format)
			if err != nil {
				panic(fmt.Sprintf("INFRA: %v", err))
			}
			cfg := func() map[string]int64 { return map[string]int64{"pass": pass, "fmt": format} }
			// every variant: the undamaged file loads with its passphrase (and round-trips through export/import),
			// and with no other passphrase
			scns = append(scns, &sim.Scn{Cfg: cfg(), Ops: []sim.Op{{K: "export"}}}, &sim.Scn{Cfg: cfg(), Ops: []sim.Op{{K: "export", A: 1}}})
			for rf := int64(0); rf < 3; rf++ {
				// a longer predecessor file (same key, other encoding), then export and import in place / elsewhere
				scns = append(scns, &sim.Scn{Cfg: cfg(), Ops: []sim.Op{{K: "reformat", A: rf, B: pass * 37}, {K: "export", A: 1}}},
					&sim.Scn{Cfg: cfg(), Ops: []sim.Op{{K: "reformat", A: rf, B: pass * 37}, {K: "export"}}})
			}
			for w := int64(0); w < c19Classes; w++ {
				scns = append(scns, &sim.Scn{Cfg: cfg(), Ops: []sim.Op{{K: "wrongpass", A: w}}})
			}
			for d := int64(1); d < 16; d++ {
				scns = append(scns, &sim.Scn{Cfg: cfg(), Ops: []sim.Op{{K: "wrongpass", A: 1, B: d}}})
			}
			if pass >= 4 && (tier != "thorough" || pass > 4) {
				continue // the whitespace/newline passphrases: pristine, round-trip and wrong-passphrase scenarios only (thorough: faults for one of them)
			}
			if tier != "thorough" && !((pass == 1 && format == 0) || (pass == 0 && format == 0) || (pass == 1 && format == 1)) {
				continue // quick: faults are enumerated for the short passphrase in both formats and the empty passphrase
			}
			step := 1
			if tier != "thorough" && !(pass == 1 && format == 0) {
				step = 7
			}
			for n := 0; n < len(img); n += step {
				scns = append(scns, &sim.Scn{Cfg: cfg(), Ops: []sim.Op{{K: "trunc", A: int64(n)}}})
			}
			for pos := 0; pos < len(img); pos += step {
				bits := []int64{0, 5}
				if tier == "thorough" {
					bits = []int64{0, 1, 2, 3, 4, 5, 6, 7}
				}
				for _, b := range bits {
					scns = append(scns, &sim.Scn{Cfg: cfg(), Ops: []sim.Op{{K: "flip", A: int64(pos), B: b}}})
				}
				scns = append(scns, &sim.Scn{Cfg: cfg(), Ops: []sim.Op{{K: "set", A: int64(pos), B: int64('A' + pos%26)}}})
			}
		}
	}
	total = len(scns)
	var wg sync.WaitGroup
	ch := make(chan *sim.Scn)
	for w := 0; w < 16; w++ {
		wg.Add(1)
		go func() {
			defer wg.Done()
			for s := range ch {
				run(s)
			}
		}()
	}
	for _, s := range scns {
		ch <- s
	}
	close(ch)
	wg.Wait()
	return fmt.Sprintf("%d fault images: per (passphrase class, format) every truncation length and every byte position x bit flips + one replacement byte (quick: full for the short passphrase/current format, every 7th position for two more variants; thorough: 10 variants, all positions, all 8 bit flips); for all 16 variants 8 other passphrases, 9 near misses of the right one (trailing newline / CR-LF / blank / NUL added or stripped, last byte dropped, case changed) and an export/import round trip each", total)
}

func c19Gen(r *rand.Rand, tier string) *sim.Scn {
	// random double faults on top of the enumeration
	s := &sim.Scn{Cfg: map[string]int64{"pass": r.Int64N(c19Classes), "fmt": r.Int64N(2)}}
	n := 2 + r.IntN(2)
	for i := 0; i < n; i++ {
		switch r.IntN(3) {
		case 0:
			s.Ops = append(s.Ops, sim.Op{K: "flip", A: r.Int64N(400), B: r.Int64N(8)})
		case 1:
			s.Ops = append(s.Ops, sim.Op{K: "set", A: r.Int64N(400), B: r.Int64N(256)})
		default:
			s.Ops = append(s.Ops, sim.Op{K: "trunc", A: r.Int64N(400)})
		}
	}
	return s
}

func TestC19(t *testing.T) {
	sim.Main(t, &sim.Check{
		ID:    "C19",
		Level: "fault_enumeration",
		Rule: "fault images of the key file written by the real ImportPrivateKey (seeded key; passphrases: empty, 1 byte, 4 KB, non-UTF-8, ending in LF, ending in CR-LF, blank-padded, ending in NUL; current and legacy salt-less format): every truncation length, every byte position x bit flips + a replacement byte (enumerated exhaustively per variant as described in enumerated_space), wrong passphrases, export->import->load; plus seeded double faults. " +
			"distinct = distinct scenario hash; non-trivial = at least one fault or round trip applied",
		Assumptions: []string{"every truncation length is a superset of the torn states of the file write (in place or via rename)", "salt and nonce come from crypto/rand, so byte values of the image differ between runs; positions and field layout do not"},
		Components:  map[string]string{"pkg/signer/file (Load, Import, Export)": "real", "types.KeyAddress": "real", "key directory": "real files in a scratch dir; faults applied to the image"},
		Gen:         c19Gen,
		Run:         c19Run,
		Enumerate:   c19Enumerate,
		QuickBudget: 15 * time.Second, ThoroughBudget: 3 * time.Minute,
	})
}
