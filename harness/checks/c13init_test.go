package checks

import (
	"context"
	"fmt"
	"os"
	"os/exec"
	"sort"
	"strings"
	"sync"
	"testing"
	"time"

	logging "github.com/ipfs/go-log/v2"
	mocknet "github.com/libp2p/go-libp2p/p2p/net/mock"
	"github.com/multiformats/go-multiaddr"

	"github.com/evstack/ev-node/pkg/config"
	"github.com/evstack/ev-node/pkg/genesis"
	"github.com/evstack/ev-node/pkg/p2p"
	"github.com/evstack/ev-node/pkg/p2p/key"
	rsync "github.com/evstack/ev-node/pkg/sync"
	"github.com/evstack/ev-node/types"

	"verif/harness/sim"
)

// C13, directed configuration "first header vs. head request": the real header SyncService (real go-header
// store, exchange server, gossip subscriber over a libp2p mocknet) receives its first header through
// WriteToStoreAndBroadcast - what block production does for the first block - while another goroutine asks
// the same service's store for its head - what the exchange server does for every peer's head request and
// what the gossip validator does for every incoming header. Every interleaving of the two at the
// datastore operations is decided by a seeded ParkSched. A violated interleaving ends the process
// (log.Fatal inside the header store), so each schedule runs in a child process.

var (
	c13InitOnce    sync.Once
	c13InitHeader  *types.SignedHeader
	c13InitData    *types.Data
	c13InitHeaders []*types.SignedHeader
	c13InitGenesis genesis.Genesis
)

func c13InitChildBody(t *testing.T, seed uint64, kind int) {
	ctx, cancel := context.WithCancel(context.Background())
	c13InitOnce.Do(func() {
		// a genuine first header: produced by a real aggregator, in simulated time
		realNow := time.Now()
		if p := sim.Bubble(t, func() {
			time.Sleep(realNow.Sub(time.Now())) // the fake clock jumps to the real date: the headers must not look expired to the services, which run on the real clock
			w := sim.NewWorld(t, "c13i", 1)
			defer w.Close()
			blocks, _, err := buildChain(w, []int64{1, 1, 1, 1, 1})
			if err != nil {
				panic(err)
			}
			c13InitHeader, c13InitData, c13InitGenesis = cloneHeader(blocks[0].Header), cloneData(blocks[0].Data), w.Genesis
			for _, b := range blocks {
				c13InitHeaders = append(c13InitHeaders, cloneHeader(b.Header))
			}
		}); p != nil {
			panic(fmt.Sprintf("INFRA: %v", p))
		}
	})
	mn := mocknet.New()
	logger := logging.Logger("verif")
	nk := &key.NodeKey{PrivKey: sim.KeyFromSeed("nodekey-init"), PubKey: sim.KeyFromSeed("nodekey-init").GetPublic()}
	addr, _ := multiaddr.NewMultiaddr("/ip4/10.0.0.1/tcp/7676")
	h, err := mn.AddPeer(nk.PrivKey, addr)
	if err != nil {
		panic(err)
	}
	disk := sim.NewDisk(nil)
	cfg := config.DefaultConfig
	cfg.RootDir = t.TempDir()
	cfg.ChainID = c13InitGenesis.ChainID
	cfg.Node.Aggregator = true
	pc, err := p2p.NewClientWithHost(cfg, nk, disk.Open(), logger, p2p.NopMetrics(), h)
	if err != nil {
		panic(err)
	}
	if err := pc.Start(ctx); err != nil {
		panic(err)
	}
	// the child process is short-lived: tear-down (which waits seconds of real time) runs in the background
	defer func() {
		go func() {
			cancel()
			_ = pc.Close()
			_ = mn.Close()
		}()
	}()
	ps := sim.NewParkSched(seed)
	// under the race detector the activities run freely (see ParkSched.Free)
	ps.Free = os.Getenv("VERIF_C13INIT_FREE") != ""
	// the first 11 choices are the low bits of the seed (systematic enumeration), the rest is seeded
	for i := 0; i < 11; i++ {
		ps.Script = append(ps.Script, int(seed>>uint(i))&1)
	}
	var werr, herr error
	var emu sync.Mutex // the tasks run concurrently under the race detector (ParkSched.Free)
	setW := func(err error) {
		emu.Lock()
		if err != nil && werr == nil {
			werr = err
		}
		emu.Unlock()
	}
	setH := func(err error) {
		emu.Lock()
		herr = err
		emu.Unlock()
	}
	var height func() uint64
	if kind == 0 {
		svc, err := rsync.NewHeaderSyncService(disk.Open(), cfg, c13InitGenesis, pc, logger)
		if err != nil {
			panic(err)
		}
		if err := svc.Start(ctx); err != nil {
			panic(err)
		}
		ps.Go(func() {
			ps.Yield()
			setW(svc.WriteToStoreAndBroadcast(ctx, c13InitHeader))
		})
		ps.Go(func() {
			ps.Yield()
			_, e := svc.Store().Head(ctx)
			setH(e)
		})
		height = svc.Store().Height
	} else if kind == 2 || kind == 3 {
		// restart: an earlier incarnation stored headers 1 and 2; the new one publishes 3 and 4 while two
		// other goroutines look up the head
		svc1, err := rsync.NewHeaderSyncService(disk.Open(), cfg, c13InitGenesis, pc, logger)
		if err != nil {
			panic(err)
		}
		if err := svc1.Start(ctx); err != nil {
			panic(err)
		}
		for _, hd := range c13InitHeaders[:2] {
			if err := svc1.WriteToStoreAndBroadcast(ctx, hd); err != nil {
				panic(fmt.Sprintf("phase 1: %v", err))
			}
		}
		time.Sleep(20 * time.Millisecond)
		if err := svc1.Stop(ctx); err != nil {
			fmt.Printf("C13INIT phase-1 stop: %v\n", err)
		}
		mn2 := mocknet.New()
		h2, err := mn2.AddPeer(nk.PrivKey, addr)
		if err != nil {
			panic(err)
		}
		pc2, err := p2p.NewClientWithHost(cfg, nk, disk.Open(), logger, p2p.NopMetrics(), h2)
		if err != nil {
			panic(err)
		}
		if err := pc2.Start(ctx); err != nil {
			panic(err)
		}
		svc, err := rsync.NewHeaderSyncService(disk.Open(), cfg, c13InitGenesis, pc2, logger)
		if err != nil {
			panic(err)
		}
		if err := svc.Start(ctx); err != nil {
			panic(err)
		}
		if kind == 3 {
			// what go-header's syncer does to the store it is given: its sync loop appends the range it fetched while
			// the handling of an incoming network head appends the same header (each after an unsynchronised look
			// at the head it remembers), a head lookup in between. Nothing of this may end or hang the process.
			ps.Go(func() {
				ps.Yield()
				for _, hd := range c13InitHeaders[2:] {
					if err := svc.Store().Append(ctx, hd); err != nil {
						setW(fmt.Errorf("sync loop, header %d: %w", hd.Height(), err))
					}
					time.Sleep(2 * time.Millisecond)
					ps.Yield()
				}
			})
			ps.Go(func() {
				ps.Yield()
				if err := svc.Store().Append(ctx, c13InitHeaders[2]); err != nil {
					setW(fmt.Errorf("incoming head, header 3: %w", err))
				}
				ps.Yield()
				if err := svc.Store().Append(ctx, c13InitHeaders[2:]...); err != nil {
					setW(fmt.Errorf("incoming head, headers 3..: %w", err))
				}
			})
			ps.Go(func() {
				ps.Yield()
				_, e := svc.Store().Head(ctx)
				setH(e)
			})
			height = svc.Store().Height
		} else {
			ps.Go(func() {
				ps.Yield()
				for _, hd := range c13InitHeaders[2:] {
					if err := svc.WriteToStoreAndBroadcast(ctx, hd); err != nil {
						setW(fmt.Errorf("header %d: %w", hd.Height(), err))
					}
					time.Sleep(2 * time.Millisecond) // the store's writer goroutine publishes the appended header
					ps.Yield()
				}
			})
			for k := 0; k < 2; k++ {
				ps.Go(func() {
					ps.Yield()
					_, e := svc.Store().Head(ctx)
					setH(e)
				})
			}
			height = svc.Store().Height
		}
	} else {
		svc, err := rsync.NewDataSyncService(disk.Open(), cfg, c13InitGenesis, pc, logger)
		if err != nil {
			panic(err)
		}
		if err := svc.Start(ctx); err != nil {
			panic(err)
		}
		ps.Go(func() {
			ps.Yield()
			setW(svc.WriteToStoreAndBroadcast(ctx, c13InitData))
		})
		ps.Go(func() {
			ps.Yield()
			_, e := svc.Store().Head(ctx)
			setH(e)
		})
		height = svc.Store().Height
	}
	disk.Yield = ps.Yield
	done := make(chan error, 1)
	go func() { done <- ps.Run() }()
	select {
	case err := <-done:
		if err != nil {
			fmt.Printf("C13INIT sched-error seed=%d %v\n", seed, err)
			// every unfinished task is blocked and none can be released. A task waiting for a channel may be
			// waiting for a goroutine the scheduler does not supervise (pubsub's validation); a task waiting for a
			// mutex of the sync service can only be released by another task - there is none left: a deadlock
			for _, blk := range ps.StuckStacks {
				first := strings.SplitN(blk, "\n", 2)[0]
				if (strings.Contains(first, "[sync.Mutex.Lock") || strings.Contains(first, "[sync.RWMutex.")) && strings.Contains(blk, "ev-node/pkg/sync.") {
					var fr []string
					for _, l := range strings.Split(blk, "\n") {
						if strings.Contains(l, "ev-node/pkg/sync.") {
							fr = append(fr, strings.TrimSpace(strings.SplitN(l, "(", 2)[0]))
						}
					}
					fmt.Printf("C13INIT deadlock seed=%d %s in %s\n", seed, strings.TrimSuffix(strings.SplitN(first, "[", 2)[1], "]:"), strings.Join(fr, " < "))
					break
				}
			}
		}
	case <-time.After(20 * time.Second):
		fmt.Printf("C13INIT timeout seed=%d\n", seed)
	}
	disk.Yield = nil
	fmt.Printf("C13INIT done seed=%d schedule=%v write-err=%v head-err=%v height=%d\n", seed, ps.Trace, werr, herr, height())
}

// TestC13InitChild runs the schedules VERIF_C13INIT_FROM..VERIF_C13INIT_TO-1, one after the other, and
// announces each before it starts: the parent learns from the last announcement which schedule killed the process.
func TestC13InitChild(t *testing.T) {
	if os.Getenv("VERIF_C13INIT_FROM") == "" {
		t.Skip("child only")
	}
	var from, to uint64
	var kind int
	fmt.Sscan(os.Getenv("VERIF_C13INIT_FROM"), &from)
	fmt.Sscan(os.Getenv("VERIF_C13INIT_TO"), &to)
	fmt.Sscan(os.Getenv("VERIF_C13INIT_KIND"), &kind)
	for seed := from; seed < to; seed++ {
		fmt.Printf("C13INIT begin seed=%d\n", seed)
		c13InitChildBody(t, seed, kind)
	}
	fmt.Printf("C13INIT range-complete\n")
}

type c13InitResult struct {
	seed   uint64
	detail string
	infra  bool
}

// c13InitRange runs schedules [from,to) in child processes and returns the schedules that ended the
// process (with the fatal line) or could not be run (infra).
func c13InitRange(kind int, from, to uint64) (ran int, bad []c13InitResult) {
	exe, err := os.Executable()
	if err != nil {
		return 0, []c13InitResult{{from, err.Error(), true}}
	}
	// a child that a fatal log line ends leaves its temporary directories behind: they live under one of ours
	tmp, err := os.MkdirTemp("", "verif-c13init-")
	if err != nil {
		return 0, []c13InitResult{{from, err.Error(), true}}
	}
	defer os.RemoveAll(tmp)
	for from < to {
		cmd := exec.Command(exe, "-test.run", "^TestC13InitChild$", "-test.count", "1", "-test.timeout", "20m")
		cmd.Env = append(os.Environ(), "TMPDIR="+tmp, fmt.Sprintf("VERIF_C13INIT_FROM=%d", from), fmt.Sprintf("VERIF_C13INIT_TO=%d", to), fmt.Sprintf("VERIF_C13INIT_KIND=%d", kind), "GOLOG_LOG_LEVEL=fatal")
		out, err := cmd.CombinedOutput()
		text := string(out)
		ran += strings.Count(text, "C13INIT done seed=")
		for _, l := range strings.Split(text, "\n") {
			if strings.HasPrefix(l, "C13INIT deadlock seed=") {
				var sd uint64
				fmt.Sscan(strings.TrimPrefix(l, "C13INIT deadlock seed="), &sd)
				bad = append(bad, c13InitResult{sd, "DEADLOCK " + strings.TrimSpace(l), false})
			}
		}
		if strings.Contains(text, "C13INIT range-complete") && err == nil {
			return ran, bad
		}
		// the child died: the last announced schedule is the one that killed it
		last := uint64(0)
		found := false
		for _, l := range strings.Split(text, "\n") {
			if strings.HasPrefix(l, "C13INIT begin seed=") {
				fmt.Sscan(strings.TrimPrefix(l, "C13INIT begin seed="), &last)
				found = true
			}
		}
		if !found {
			return ran, append(bad, c13InitResult{from, fmt.Sprintf("child failed before the first schedule: %v: %s", err, text[:min(len(text), 400)]), true})
		}
		if fl := lineWith(text, "FATAL"); fl != "" {
			bad = append(bad, c13InitResult{last, fl, false})
		} else {
			tail := text
			if len(tail) > 600 {
				tail = tail[len(tail)-600:]
			}
			bad = append(bad, c13InitResult{last, fmt.Sprintf("child died without a fatal log line: %v: %s", err, tail), true})
		}
		from = last + 1
	}
	return ran, bad
}

// c13InitRaceRange runs schedules [from,to) of a kind in the race-detector build of this package (VERIF_RACE_BIN), the
// activities running freely. It returns the number of schedules run and, for every data race the detector reports
// with an access inside the repository's own code, the function and the report.
func c13InitRaceRange(kind int, from, to uint64) (ran int, races []string, infra string) {
	bin := os.Getenv("VERIF_RACE_BIN")
	tmp, err := os.MkdirTemp("", "verif-c13race-")
	if err != nil {
		return 0, nil, err.Error()
	}
	defer os.RemoveAll(tmp)
	cmd := exec.Command(bin, "-test.run", "^TestC13InitChild$", "-test.count", "1", "-test.timeout", "20m")
	cmd.Env = append(os.Environ(), "TMPDIR="+tmp, "VERIF_C13INIT_FREE=1", "GORACE=halt_on_error=0 history_size=3", fmt.Sprintf("VERIF_C13INIT_FROM=%d", from), fmt.Sprintf("VERIF_C13INIT_TO=%d", to), fmt.Sprintf("VERIF_C13INIT_KIND=%d", kind), "GOLOG_LOG_LEVEL=fatal")
	out, _ := cmd.CombinedOutput()
	text := string(out)
	ran = strings.Count(text, "C13INIT done seed=")
	if strings.Contains(text, "SIGSEGV: segmentation violation") || strings.Contains(text, "ThreadSanitizer: CHECK failed") {
		return ran, nil, "" // the race runtime itself crashed (toolchain problem): what ran, ran
	}
	if ran == 0 {
		return 0, nil, "race-detector child ran no schedule: " + text[:min(len(text), 400)]
	}
	for _, rep := range strings.Split(text, "WARNING: DATA RACE")[1:] {
		if i := strings.Index(rep, "=================="); i >= 0 {
			rep = rep[:i]
		}
		// the function of each of the two accesses is the first frame after "... at 0x... by goroutine N:"
		var own string
		lines := strings.Split(rep, "\n")
		for i, l := range lines {
			if (strings.HasPrefix(l, "Write at ") || strings.HasPrefix(l, "Read at ") || strings.HasPrefix(l, "Previous write at ") || strings.HasPrefix(l, "Previous read at ")) && i+1 < len(lines) {
				fn := strings.TrimSpace(lines[i+1])
				if strings.HasPrefix(fn, "github.com/evstack/ev-node/") {
					own = strings.TrimSuffix(fn, "()")
				}
			}
		}
		if own != "" {
			races = append(races, own+"\n"+rep[:min(len(rep), 1500)])
		}
	}
	return ran, races, ""
}

func lineWith(text, what string) string {
	for _, l := range strings.Split(text, "\n") {
		if strings.Contains(l, what) {
			return strings.TrimSpace(l)
		}
	}
	return ""
}

func TestC13InitProbe(t *testing.T) {
	if os.Getenv("VERIF_C13INIT_PROBE") == "" {
		t.Skip("manual")
	}
	var mu sync.Mutex
	total, nbad := 0, 0
	var wg sync.WaitGroup
	for w := uint64(0); w < 16; w++ {
		wg.Add(1)
		go func(w uint64) {
			defer wg.Done()
			kind := int(w % 2)
			if k := os.Getenv("VERIF_C13INIT_PROBE_KIND"); k != "" {
				fmt.Sscan(k, &kind)
			}
			ran, bad := c13InitRange(kind, (w/2)*256, (w/2+1)*256)
			for _, b := range bad {
				if !b.infra {
					fmt.Printf("BAD kind=%d seed=%d %s\n", kind, b.seed, b.detail)
				}
			}
			mu.Lock()
			total += ran
			nbad += len(bad)
			for _, b := range bad {
				if b.infra {
					fmt.Printf("INFRA seed %d: %s\n", b.seed, b.detail)
				}
			}
			mu.Unlock()
		}(w)
	}
	wg.Wait()
	fmt.Printf("ran=%d bad=%d of 2048\n", total, nbad)
}

// c13InitScenario runs the schedules cfg initfrom-1 .. initto-1 of service kind cfg initkind (a scenario of the C13 whole-node half).
func c13InitScenario(s *sim.Scn, o *sim.Outcome) {
	from, to, kind := uint64(s.Cfg["initfrom"]-1), uint64(s.Cfg["initto"]), int(s.Cfg["initkind"]%4)
	if s.Cfg["initrace"] == 1 {
		// the same activities, running freely, in the race-detector build: the sync service and the store wrapper
		// are otherwise never run under the detector (whole nodes cannot be, with this toolchain)
		name := []string{"header", "data", "header-after-restart", "duplicate-appends-after-restart"}[kind]
		if os.Getenv("VERIF_RACE_BIN") == "" {
			o.Count("sync-service-under-race-detector:skipped-no-race-build", 1)
			return
		}
		ran, races, infra := c13InitRaceRange(kind, from, to)
		if infra != "" {
			panic("INFRA: " + infra)
		}
		o.Count("sync-service-under-race-detector:schedules-run/"+name, ran)
		o.NonTrivial = ran > 0
		if len(races) > 0 {
			fn := strings.SplitN(races[0], "\n", 2)[0]
			short := fn[strings.LastIndex(fn, "/")+1:]
			o.Fail("C13/data-race", "C13/data-race/"+short, int(from), fmt.Sprintf("%s: activities of the sync service running freely under the race detector: %s", name, races[0]), "no data race occurs")
		}
		return
	}
	// short-lived children of 32 schedules each (goroutines of torn-down services accumulate in a child), 12 at a time
	var mu sync.Mutex
	var wg sync.WaitGroup
	ran := 0
	var bad []c13InitResult
	sem := make(chan struct{}, 12)
	for a := from; a < to; a += 32 {
		b := a + 32
		if b > to {
			b = to
		}
		wg.Add(1)
		sem <- struct{}{}
		go func(a, b uint64) {
			defer wg.Done()
			defer func() { <-sem }()
			r, bd := c13InitRange(kind, a, b)
			mu.Lock()
			ran += r
			bad = append(bad, bd...)
			mu.Unlock()
		}(a, b)
	}
	wg.Wait()
	sort.Slice(bad, func(i, j int) bool { return bad[i].seed < bad[j].seed })
	name := []string{"header", "data", "header-after-restart", "duplicate-appends-after-restart"}[kind]
	o.Count("first-item-vs-head-lookup:schedules-run/"+name, ran)
	o.NonTrivial = ran > 0
	for _, b := range bad {
		if b.infra {
			panic("INFRA: " + b.detail)
		}
		var bits []int
		for i := 0; i < 11; i++ {
			bits = append(bits, int(b.seed>>uint(i))&1)
		}
		if strings.HasPrefix(b.detail, "DEADLOCK ") {
			o.Fail("C13/concurrent-activities-deadlock", "C13/concurrent-activities-deadlock/"+name+"-vs-head-lookup", int(b.seed),
				fmt.Sprintf("%s: WriteToStoreAndBroadcast interleaved with head lookups on the same store under schedule %v (schedule id %d): every unfinished activity waits for a lock of the sync service and none is left to release it: %s", name, bits, b.seed, strings.TrimPrefix(b.detail, "DEADLOCK ")),
				"no interleaving of a node's concurrent activities hangs them")
			continue
		}
		o.Fail("C13/process-killed-by-concurrent-activities", "C13/process-killed-by-concurrent-activities/"+name+"-vs-head-lookup", int(b.seed),
			fmt.Sprintf("%s: WriteToStoreAndBroadcast (task 0: the first item; after a restart: the next three headers) interleaved with head lookups on the same store (other tasks) under schedule %v (schedule id %d) ends the process: %s", name, bits, b.seed, b.detail),
			"no interleaving of a node's concurrent activities kills the process")
		return
	}
}
