package checks

import (
	"context"
	"fmt"
	"testing"
	"time"

	"verif/harness/sim"
)

// C13, directed: stop while the sync loop lags far behind. A full node that catches up on a long chain gets
// more headers from its P2P header store at once than the event channel to the sync loop can buffer (10 000).
// The poll loop then waits for room in the channel; the question is whether it still returns when the node is
// asked to stop at that moment.
func c13BacklogBody(t *testing.T, s *sim.Scn, o *sim.Outcome) {
	n := int(s.Cfg["blocks"])
	if n < 100 {
		n = 100
	}
	w := sim.NewWorld(t, "c13b", 1)
	defer w.Close()
	private := sim.NewSimDA()
	agg := w.AddNode(sim.NodeCfg{Name: "seq", Aggregator: true, DA: private, BlockTime: 10 * time.Millisecond})
	if err := agg.StartNode(); err != nil {
		panic(err)
	}
	for i := 0; i < n; i++ {
		time.Sleep(10 * time.Millisecond)
		if err := agg.Produce(); err != nil {
			panic(fmt.Sprintf("producing block %d: %v", i, err))
		}
	}
	top := agg.Height()
	full := w.AddNode(sim.NodeCfg{Name: "full", BlockTime: 10 * time.Millisecond})
	full.NoP2PLoops = true
	if err := full.StartNode(); err != nil {
		panic(err)
	}
	full.Exec.Latency = 50 * time.Millisecond // applying a block takes a while: the sync loop lags
	for _, h := range agg.HB.All() {
		full.HStore.Put(h.Height(), sim.CloneHeader(h))
	}
	for _, d := range agg.DB.All() {
		if d.Metadata != nil {
			full.DStore.Put(d.Metadata.Height, sim.CloneData(d))
		}
	}
	full.HStore.SetHeight(top)
	full.DStore.SetHeight(top)
	ctx, cancel := context.WithCancel(context.Background())
	type wk struct {
		name string
		done chan struct{}
		ret  time.Duration
	}
	var stopped time.Time
	errCh := make(chan error, 4)
	var workers []*wk
	spawn := func(name string, f func()) {
		x := &wk{name: name, done: make(chan struct{})}
		workers = append(workers, x)
		go func() {
			defer close(x.done)
			f()
			if !stopped.IsZero() {
				x.ret = time.Since(stopped)
			}
		}()
	}
	spawn("full/header-store", func() { full.M.HeaderStoreRetrieveLoop(ctx) })
	spawn("full/data-store", func() { full.M.DataStoreRetrieveLoop(ctx) })
	spawn("full/sync", func() { full.M.SyncLoop(ctx, errCh) })
	time.Sleep(time.Duration(200+s.Cfg["stopms"]) * time.Millisecond)
	stopped = time.Now()
	cancel()
	for _, x := range workers {
		select {
		case <-x.done:
		case <-time.After(10 * time.Minute):
			sim.EmergencyReport("C13", s, &sim.Violation{Oracle: "C13/worker-never-stops", Sig: "C13/worker-never-stops/" + x.name + "/sync-backlog", Step: -1,
				Observed: fmt.Sprintf("full node catching up on %d blocks (event channel capacity 10000), asked to stop %v after start: %s is still running 10 minutes of simulated time later (height reached %d)", top, time.Duration(200+s.Cfg["stopms"])*time.Millisecond, x.name, full.Height()),
				Expected: "every activity returns when the node is asked to stop"})
		}
	}
	for _, x := range workers {
		if x.ret > time.Second {
			o.Fail("C13/worker-does-not-stop-promptly", "C13/worker-does-not-stop-promptly/"+x.name+"/sync-backlog", -1, fmt.Sprintf("%s returned %v after the stop", x.name, x.ret), "prompt return")
			return
		}
	}
	o.Count("backlog-runs", 1)
	o.Count("backlog-blocks", int(top))
	o.NonTrivial = true
}
