package checks

import (
	"bufio"
	"fmt"
	"os"
	"os/exec"
	"path/filepath"
	"regexp"
	"sort"
	"strconv"
	"strings"
	"testing"
	"time"

	"verif/harness/sim"
)

// C04, cache files: "a crash in the middle of writing the on-disk caches at shutdown".
//
// The code writes its cache files with plain os calls (no seam). The crash states are therefore derived
// from what the code really does: the real shutdown save (Manager.SaveCache) runs in a child process
// under strace; the recorded file operations (open/truncate, write, rename, unlink) are replayed prefix
// by prefix (and cut inside each write) onto the directory image that existed before the save, and the
// real start-up code (NewManager -> LoadCache) plus a production step must succeed on every such image.
// A tree that writes to a temporary file and renames it is judged on exactly those system calls.

// c04CacheScenario drives a sequencer node so that its caches are non-empty; save=true saves them (clean stop).
func c04CacheScenario(t *testing.T, root string, disk **sim.Disk, first bool, marker func() bool) {
	p := sim.Bubble(t, func() {
		w := sim.NewWorld(t, "c04cache", 1)
		defer w.Close()
		n := w.AddNode(sim.NodeCfg{Name: "seq", Aggregator: true, Root: root})
		w.DA.AutoAdvance = true
		if err := n.StartNode(); err != nil {
			panic(err)
		}
		o := sim.NewOutcome()
		r := newAggRun(w, n, o)
		for i := 0; i < 4; i++ {
			r.exec(sim.Op{K: "sleep", A: 1000}, -1)
			r.exec(sim.Op{K: "tx", A: 1}, -1)
			r.exec(sim.Op{K: "reap"}, -1)
			r.exec(sim.Op{K: "produce"}, -1)
			if i == 1 {
				r.exec(sim.Op{K: "subh", A: 0}, -1)
				r.exec(sim.Op{K: "subd", A: 0}, -1)
				if !first {
					_ = n.M.SaveCache() // an earlier clean shutdown left these files behind
				}
			}
		}
		r.exec(sim.Op{K: "subh", A: 0}, -1)
		r.exec(sim.Op{K: "subd", A: 0}, -1)
		r.exec(sim.Op{K: "include"}, -1)
		if marker != nil && marker() {
			n.Crash() // the caller wants the image right before the final save
			return
		}
		if err := n.StopClean(); err != nil {
			panic(fmt.Sprintf("SaveCache: %v", err))
		}
		if disk != nil {
			*disk = n.Disk
		}
	})
	if p != nil {
		panic(fmt.Sprintf("INFRA: cache scenario failed: %v", p))
	}
}

// TestC04CacheChild is the child process body: it runs the scenario with the node root given by the parent and
// touches a marker file right before the final save.
func TestC04CacheChild(t *testing.T) {
	root := os.Getenv("VERIF_C04_CHILD_ROOT")
	if root == "" {
		t.Skip("child only")
	}
	c04CacheScenario(t, root, nil, os.Getenv("VERIF_C04_CHILD_FIRST") == "1", func() bool {
		_ = os.WriteFile(filepath.Join(root, "MARKER"), []byte("x"), 0o644)
		return false
	})
}

type fsOp struct {
	kind  string // open | write | rename | unlink | mkdir
	path  string
	to    string
	data  []byte
	trunc bool
	fd    int
}

var straceStr = regexp.MustCompile(`"((?:\\x[0-9a-f]{2})*)"`)

func unhex(s string) string {
	var sb strings.Builder
	for i := 0; i+3 < len(s)+1 && i < len(s); i += 4 {
		v, _ := strconv.ParseUint(s[i+2:i+4], 16, 8)
		sb.WriteByte(byte(v))
	}
	return sb.String()
}

// parseStrace extracts the file operations under root that follow the marker.
func parseStrace(file, root string) ([]fsOp, error) {
	f, err := os.Open(file)
	if err != nil {
		return nil, err
	}
	defer f.Close()
	sc := bufio.NewScanner(f)
	sc.Buffer(make([]byte, 1<<20), 64<<20)
	fds := map[int]string{}
	partial := map[int]string{}
	var ops []fsOp
	seenMarker := false
	for sc.Scan() {
		line := sc.Text()
		pid := 0
		if i := strings.Index(line, " "); i > 0 { // strip pid
			if v, err := strconv.Atoi(line[:i]); err == nil {
				pid = v
				line = strings.TrimSpace(line[i:])
			}
		}
		// with -f a call of one thread may be reported in two pieces around calls of other threads:
		// "openat(... <unfinished ...>" and "<... openat resumed>) = 7"; the call took effect when it completed
		if i := strings.Index(line, "<unfinished ...>"); i >= 0 {
			partial[pid] = line[:i]
			continue
		}
		if strings.HasPrefix(line, "<... ") {
			j := strings.Index(line, "resumed>")
			if j < 0 {
				continue
			}
			line = partial[pid] + line[j+len("resumed>"):]
			delete(partial, pid)
		}
		ret := -1
		if i := strings.LastIndex(line, " = "); i > 0 {
			fields := strings.Fields(line[i+3:])
			if len(fields) > 0 {
				if v, err := strconv.Atoi(fields[0]); err == nil {
					ret = v
				}
			}
		}
		strs := straceStr.FindAllStringSubmatch(line, -1)
		switch {
		case strings.HasPrefix(line, "openat("):
			if len(strs) == 0 || ret < 0 {
				continue
			}
			path := unhex(strs[0][1])
			if !strings.HasPrefix(path, root) {
				delete(fds, ret)
				continue
			}
			if strings.HasSuffix(path, "MARKER") {
				seenMarker = true
				ops = nil
				continue
			}
			fds[ret] = path
			if strings.Contains(line, "O_WRONLY") || strings.Contains(line, "O_RDWR") {
				ops = append(ops, fsOp{kind: "open", path: path, trunc: strings.Contains(line, "O_TRUNC"), fd: ret})
			}
		case strings.HasPrefix(line, "write("):
			fd, _ := strconv.Atoi(strings.TrimSuffix(strings.Fields(strings.TrimPrefix(line, "write("))[0], ","))
			path, ok := fds[fd]
			if !ok || len(strs) == 0 || ret < 0 {
				continue
			}
			data := []byte(unhex(strs[0][1]))
			if ret < len(data) {
				data = data[:ret]
			}
			ops = append(ops, fsOp{kind: "write", path: path, data: data, fd: fd})
		case strings.HasPrefix(line, "close("):
			fd, _ := strconv.Atoi(strings.TrimSuffix(strings.TrimPrefix(strings.Fields(line)[0], "close("), ")"))
			delete(fds, fd)
		case strings.HasPrefix(line, "rename(") || strings.HasPrefix(line, "renameat(") || strings.HasPrefix(line, "renameat2("):
			if len(strs) >= 2 && ret == 0 {
				a, b := unhex(strs[0][1]), unhex(strs[1][1])
				if strings.HasPrefix(a, root) || strings.HasPrefix(b, root) {
					ops = append(ops, fsOp{kind: "rename", path: a, to: b})
				}
			}
		case strings.HasPrefix(line, "unlink(") || strings.HasPrefix(line, "unlinkat("):
			if len(strs) >= 1 && ret == 0 {
				a := unhex(strs[0][1])
				if strings.HasPrefix(a, root) {
					ops = append(ops, fsOp{kind: "unlink", path: a})
				}
			}
		}
	}
	if !seenMarker {
		return nil, fmt.Errorf("marker not found in strace output")
	}
	return ops, nil
}

func min(a, b int) int {
	if a < b {
		return a
	}
	return b
}

// dirImage maps relative path -> content.
type dirImage map[string][]byte

func readImage(root string) dirImage {
	img := dirImage{}
	_ = filepath.Walk(root, func(p string, info os.FileInfo, err error) error {
		if err == nil && !info.IsDir() {
			b, _ := os.ReadFile(p)
			rel, _ := filepath.Rel(root, p)
			img[rel] = b
		}
		return nil
	})
	return img
}

func (d dirImage) clone() dirImage {
	n := dirImage{}
	for k, v := range d {
		n[k] = append([]byte(nil), v...)
	}
	return n
}

func (d dirImage) writeTo(root string) {
	for k, v := range d {
		p := filepath.Join(root, k)
		_ = os.MkdirAll(filepath.Dir(p), 0o755)
		_ = os.WriteFile(p, v, 0o644)
	}
}

// c04CacheStates runs the strace recording and returns the directory image before the save, the crash states and a description.
func c04CacheStates(t *testing.T, first bool) (base dirImage, states []dirImage, labels []string, desc string, err error) {
	if _, e := exec.LookPath("strace"); e != nil {
		return nil, nil, nil, "", fmt.Errorf("strace not available")
	}
	exe, e := os.Executable()
	if e != nil {
		return nil, nil, nil, "", e
	}
	tmp, e := os.MkdirTemp("", "verif-c04cache-")
	if e != nil {
		return nil, nil, nil, "", e
	}
	defer os.RemoveAll(tmp)
	root := filepath.Join(tmp, "root")
	_ = os.MkdirAll(root, 0o755)
	trace := filepath.Join(tmp, "trace.txt")
	cmd := exec.Command("strace", "-f", "-xx", "-s", "1000000", "-e", "trace=openat,write,close,rename,renameat,renameat2,unlink,unlinkat", "-o", trace,
		exe, "-test.run", "^TestC04CacheChild$", "-test.count", "1")
	cmd.Env = append(os.Environ(), "VERIF_C04_CHILD_ROOT="+root, "GOMAXPROCS=2", "VERIF_C04_CHILD_FIRST="+map[bool]string{true: "1", false: "0"}[first])
	if out, e := cmd.CombinedOutput(); e != nil {
		return nil, nil, nil, "", fmt.Errorf("strace child failed: %v: %s", e, string(out[:min(len(out), 400)]))
	}
	ops, e := parseStrace(trace, root)
	if e != nil {
		return nil, nil, nil, "", e
	}
	// the image before the final save: run the same scenario up to the marker in-process, in another directory
	final := readImage(root)
	delete(final, "MARKER")
	// reconstruct "before" by undoing: we cannot undo, so rebuild from the ops: files touched by ops had some earlier content
	// which we obtain from a second child-less run that stops at the marker.
	beforeRoot := filepath.Join(tmp, "before")
	_ = os.MkdirAll(beforeRoot, 0o755)
	c04CacheScenarioUntilMarker(t, beforeRoot, first)
	base = readImage(beforeRoot)
	rel := func(p string) string { r, _ := filepath.Rel(root, p); return r }
	cur := base.clone()
	add := func(label string) {
		states = append(states, cur.clone())
		labels = append(labels, label)
	}
	add("before the save")
	nw := 0
	for i, op := range ops {
		switch op.kind {
		case "open":
			if op.trunc {
				cur[rel(op.path)] = []byte{}
			} else if _, ok := cur[rel(op.path)]; !ok {
				cur[rel(op.path)] = []byte{}
			}
			add(fmt.Sprintf("op %d: open(%s, trunc=%v)", i, rel(op.path), op.trunc))
		case "write":
			nw++
			prev := cur[rel(op.path)]
			cuts := map[int]bool{1: true, len(op.data) / 2: true, len(op.data) - 1: true}
			for c := 4096; c < len(op.data); c += 4096 {
				cuts[c] = true
			}
			var cs []int
			for c := range cuts {
				if c > 0 && c < len(op.data) {
					cs = append(cs, c)
				}
			}
			sort.Ints(cs)
			for _, c := range cs {
				cur[rel(op.path)] = append(append([]byte(nil), prev...), op.data[:c]...)
				add(fmt.Sprintf("op %d: write(%s) cut after %d of %d bytes", i, rel(op.path), c, len(op.data)))
			}
			cur[rel(op.path)] = append(append([]byte(nil), prev...), op.data...)
			add(fmt.Sprintf("op %d: write(%s, %d bytes) complete", i, rel(op.path), len(op.data)))
		case "rename":
			cur[rel(op.to)] = cur[rel(op.path)]
			delete(cur, rel(op.path))
			add(fmt.Sprintf("op %d: rename(%s -> %s)", i, rel(op.path), rel(op.to)))
		case "unlink":
			delete(cur, rel(op.path))
			add(fmt.Sprintf("op %d: unlink(%s)", i, rel(op.path)))
		}
	}
	// sanity: replaying everything must give the child's final image
	for k, v := range final {
		if string(cur[k]) != string(v) {
			return nil, nil, nil, "", fmt.Errorf("replayed operations do not reproduce the final image for %s (%d vs %d bytes)", k, len(cur[k]), len(v))
		}
	}
	which := "a later save (files of an earlier clean shutdown exist)"
	if first {
		which = "the node's first save (no cache files yet)"
	}
	desc = fmt.Sprintf(which+": %d file operations (%d writes) recorded with strace from the real SaveCache; %d crash states (every prefix, plus cuts inside each write at 1, n/2, n-1 and page multiples)", len(ops), nw, len(states))
	return base, states, labels, desc, nil
}

// c04CacheScenarioUntilMarker runs the scenario but dies instead of saving at the marker.
func c04CacheScenarioUntilMarker(t *testing.T, root string, first bool) {
	c04CacheScenario(t, root, nil, first, func() bool { return true })
}

// c04CacheCheck restarts the node on every crash state; returns an outcome per state through run.
func c04CacheEnumerate(t *testing.T) func(tier string, run func(*sim.Scn) *sim.Outcome) string {
	return func(tier string, run func(*sim.Scn) *sim.Outcome) string {
		start := time.Now()
		desc := ""
		for fi, first := range []bool{false, true} {
			_, states, labels, d, err := c04CacheStates(t, first)
			for attempt := 0; attempt < 3 && err != nil; attempt++ {
				_, states, labels, d, err = c04CacheStates(t, first) // the recording is repeated if it could not be parsed
			}
			if err != nil {
				fmt.Printf("note: cache-file crash states not enumerated: %v\n", err)
				return "cache-file crash states: NOT enumerated in this run (" + err.Error() + ")"
			}
			c04CacheImages[fi], c04CacheLabels[fi] = states, labels
			for i := range states {
				run(&sim.Scn{Cfg: map[string]int64{"cachestate": int64(i + 1), "firstsave": int64(fi)}})
			}
			desc += d + "; "
		}
		return desc + fmt.Sprintf("; %.1f s", time.Since(start).Seconds())
	}
}

var (
	c04CacheImages [2][]dirImage // [0] later save, [1] first save
	c04CacheLabels [2][]string
)

// c04CacheRun starts a node whose DB is the image after a clean shutdown and whose cache directory is crash state i.
func c04CacheRun(t *testing.T, idx int, fi int, o *sim.Outcome) {
	first := fi == 1
	if len(c04CacheImages[fi]) == 0 {
		// replay in a fresh process: record the crash states again (the history is deterministic)
		if _, states, labels, _, err := c04CacheStates(t, first); err == nil {
			c04CacheImages[fi], c04CacheLabels[fi] = states, labels
		}
	}
	if idx < 1 || idx > len(c04CacheImages[fi]) {
		return
	}
	img, label := c04CacheImages[fi][idx-1], c04CacheLabels[fi][idx-1]
	if first {
		label = "first save, " + label
	}
	root, err := os.MkdirTemp("", "verif-c04state-")
	if err != nil {
		panic(err)
	}
	defer os.RemoveAll(root)
	var disk *sim.Disk
	// the durable DB image of the same (deterministic) history
	dbRoot, _ := os.MkdirTemp("", "verif-c04db-")
	defer os.RemoveAll(dbRoot)
	c04CacheScenario(t, dbRoot, &disk, first, nil)
	img.writeTo(root)
	p := sim.Bubble(t, func() {
		w := sim.NewWorld(t, "c04cache", 1)
		defer w.Close()
		n := w.AddNode(sim.NodeCfg{Name: "seq", Aggregator: true, Root: root})
		n.Disk = disk.Fork(n.Fence)
		time.Sleep(24 * time.Hour) // the restart happens later than anything in the recorded history (every bubble starts at the same instant)
		if err := n.StartNode(); err != nil {
			o.Fail("C04/cannot-start-after-crash-during-cache-save", "", idx, fmt.Sprintf("cache directory state %q: %v", label, err), "the node starts on whatever the interrupted shutdown left on disk")
			return
		}
		r := newAggRun(w, n, o)
		hb := n.Height()
		for k := 0; k < 3 && n.Height() == hb; k++ {
			r.exec(sim.Op{K: "sleep", A: 1000}, -1)
			if _, err := r.exec(sim.Op{K: "produce"}, -1); err != nil {
				o.Fail("C04/wedged-after-crash-during-cache-save", "", idx, fmt.Sprintf("cache directory state %q: production fails: %v", label, err), "production resumes")
				return
			}
		}
		if n.Height() == hb {
			o.Fail("C04/wedged-after-crash-during-cache-save", "", idx, fmt.Sprintf("cache directory state %q: no block in 3 steps", label), "production resumes")
		}
	})
	if p != nil {
		o.Fail("C04/panic-after-crash-during-cache-save", "", idx, fmt.Sprintf("cache directory state %q: %v", label, p), "no panic")
	}
	o.Count("cache-file-crash-states-restarted", 1)
	o.NonTrivial = true
}
