package checks

import (
	"bytes"
	"fmt"
	"math/rand/v2"
	"os"
	"strings"
	"testing"
	"time"

	goheader "github.com/celestiaorg/go-header"
	"github.com/libp2p/go-libp2p/core/crypto"
	"google.golang.org/protobuf/proto"

	"github.com/evstack/ev-node/types"

	"verif/harness/sim"
)

// C03 — only material signed by the genesis proposer's key is ever accepted.
//
// World: C02's world (real proposer chain, real follower loops) plus an adversary that owns another
// key. The adversary publishes on the DA layer, into the P2P header store the follower polls, and
// offers headers to the admission pipeline a header-only node applies to gossip (real types, real
// go-header Verify). Nothing the adversary builds needs the proposer's private key.
//
// extra ops: advda(A=kind,B=block,C=offset)  plant an adversarial blob on DA
//            advp2p(A=kind,B=block)          replace the P2P header-store entry of a block by an adversarial header
//            light(A=kind,B=block,C=gap)     offer an adversarial header to the light-node admission pipeline

type adversary struct {
	key    crypto.PrivKey
	pub    crypto.PubKey
	w      *sim.World
	blocks []pBlock
	// hashes of every adversarial header / commitments of adversarial data produced so far
	hdrHashes  map[string]string
	dataHashes map[string]string
}

func newAdversary(w *sim.World, blocks []pBlock) *adversary {
	k := sim.KeyFromSeed("attacker")
	return &adversary{key: k, pub: k.GetPublic(), w: w, blocks: blocks, hdrHashes: map[string]string{}, dataHashes: map[string]string{}}
}

func (a *adversary) sign(h *types.SignedHeader) {
	payload, _ := types.DefaultSignaturePayloadProvider(&h.Header)
	sig, _ := a.key.Sign(payload)
	h.Signature = sig
}

const numAdvHeaderKinds = 12

// header builds an adversarial header of the given kind aimed at block index bi.
func (a *adversary) header(kind int64, bi int) (*types.SignedHeader, string) {
	g := a.blocks[bi]
	h := cloneHeader(g.Header)
	paddr := a.w.Genesis.ProposerAddress
	var name string
	switch kind % numAdvHeaderKinds {
	case 0:
		name = "mutated-copy-resigned-with-other-key-under-proposer-address"
		h.AppHash = bytes.Repeat([]byte{0x66}, 32)
		h.Signer = types.Signer{PubKey: a.pub, Address: paddr}
		a.sign(h)
	case 1:
		name = "forged-next-height-linking-to-head-under-proposer-address"
		top := a.blocks[len(a.blocks)-1]
		h = cloneHeader(top.Header)
		h.BaseHeader.Height = top.H + 1
		h.BaseHeader.Time = top.Header.BaseHeader.Time + 1e9
		h.LastHeaderHash = top.Header.Hash()
		h.DataHash = (&types.Data{Txs: types.Txs{[]byte("evil=1")}}).DACommitment()
		h.Signer = types.Signer{PubKey: a.pub, Address: paddr}
		a.sign(h)
	case 2:
		name = "genuine-header-garbage-signature"
		h.AppHash = bytes.Repeat([]byte{0x67}, 32)
		h.Signature = bytes.Repeat([]byte{0x42}, 64)
	case 3:
		name = "genuine-header-empty-signature"
		h.AppHash = bytes.Repeat([]byte{0x68}, 32)
		h.Signature = nil
	case 4:
		name = "foreign-chain-id-other-key-under-proposer-address"
		h.BaseHeader.ChainID = "other-chain"
		h.Signer = types.Signer{PubKey: a.pub, Address: paddr}
		a.sign(h)
	case 5:
		name = "field-mutated-copy-keeping-genuine-signature"
		dh := append([]byte(nil), h.DataHash...)
		dh[0] ^= 0xff
		h.DataHash = dh
	case 6:
		name = "other-key-with-its-own-address-naming-proposer"
		h.AppHash = bytes.Repeat([]byte{0x69}, 32)
		h.Signer = types.Signer{PubKey: a.pub, Address: types.KeyAddress(a.pub)}
		a.sign(h)
	case 7:
		name = "same-height-replacement-self-consistent-forgery"
		// a complete alternative block header for this height: different data hash, linked correctly
		h.DataHash = (&types.Data{Txs: types.Txs{[]byte(fmt.Sprintf("evil=%d", bi))}}).DACommitment()
		h.Signer = types.Signer{PubKey: a.pub, Address: paddr}
		a.sign(h)
	case 8:
		name = "genuine-fields-resigned-with-other-key-under-proposer-address"
		// nothing the header hash covers is changed: only who signed it
		h.Signer = types.Signer{PubKey: a.pub, Address: paddr}
		a.sign(h)
	case 9:
		name = "genuine-fields-garbage-signature"
		h.Signature = bytes.Repeat([]byte{0x24}, 64)
	case 10:
		name = "self-consistent-header-of-another-proposer-same-height"
		// a third party's own chain: its own address as proposer, its own key, correctly signed
		h.ProposerAddress = types.KeyAddress(a.pub)
		h.Signer = types.Signer{PubKey: a.pub, Address: types.KeyAddress(a.pub)}
		a.sign(h)
	case 11:
		name = "self-consistent-header-of-another-proposer-next-height"
		top := a.blocks[len(a.blocks)-1]
		h = cloneHeader(top.Header)
		h.BaseHeader.Height = top.H + 1
		h.BaseHeader.Time = top.Header.BaseHeader.Time + 1e9
		h.LastHeaderHash = top.Header.Hash()
		h.DataHash = (&types.Data{}).DACommitment()
		h.ProposerAddress = types.KeyAddress(a.pub)
		h.Signer = types.Signer{PubKey: a.pub, Address: types.KeyAddress(a.pub)}
		a.sign(h)
	}
	if bytes.Equal(h.Hash(), g.Header.Hash()) {
		// same hash as the genuine header: the mark for this hash is legitimate once the proposer's own blob was
		// seen; that is judged by the "marked without the proposer's blob" oracle, not by hash
		return h, name
	}
	a.hdrHashes[string(h.Hash())] = name
	return h, name
}

const numAdvDataKinds = 7

func (a *adversary) signedData(kind int64, bi int) ([]byte, string) {
	g := a.blocks[bi]
	paddr := a.w.Genesis.ProposerAddress
	var sd types.SignedData
	var name string
	if k := kind % numAdvDataKinds; k >= 5 {
		// altered copies of a genuine proposer-signed data blob, keeping the genuine signature and signer:
		// what a party without any key can do with material it reads from the DA layer
		src := g
		if src.DBlob == nil {
			for _, b := range a.blocks {
				if b.DBlob != nil {
					src = b
					break
				}
			}
		}
		if src.DBlob == nil {
			return nil, "no-genuine-data-to-alter"
		}
		var gsd types.SignedData
		if err := gsd.UnmarshalBinary(src.DBlob); err != nil || gsd.Metadata == nil {
			return nil, "no-genuine-data-to-alter"
		}
		if k == 5 {
			name = "genuine-signed-data-relabelled-to-another-height"
			top := a.blocks[len(a.blocks)-1].H
			nh := uint64(bi)%top + 1
			if nh == gsd.Metadata.Height {
				nh = nh%top + 1
			}
			gsd.Metadata.Height = nh
		} else {
			name = "genuine-signed-data-with-metadata-stripped"
			gsd.Metadata = nil
		}
		blob, err := gsd.MarshalBinary()
		if err != nil {
			return nil, name
		}
		return blob, name
	}
	switch kind % numAdvDataKinds {
	case 0:
		name = "forged-data-other-key-under-proposer-address"
		sd.Data = types.Data{Metadata: &types.Metadata{ChainID: a.w.Genesis.ChainID, Height: g.H, Time: g.Header.BaseHeader.Time}, Txs: types.Txs{[]byte(fmt.Sprintf("evil=%d", bi))}}
	case 1:
		name = "forged-data-without-metadata"
		sd.Data = types.Data{Txs: types.Txs{[]byte(fmt.Sprintf("evil-nometa=%d", bi))}}
	case 2:
		name = "forged-data-future-height"
		sd.Data = types.Data{Metadata: &types.Metadata{ChainID: a.w.Genesis.ChainID, Height: a.blocks[len(a.blocks)-1].H + 2, Time: g.Header.BaseHeader.Time + 5e9}, Txs: types.Txs{[]byte("evil-future=1")}}
	case 3:
		name = "forged-data-matching-a-forged-header"
		sd.Data = types.Data{Metadata: &types.Metadata{ChainID: a.w.Genesis.ChainID, Height: g.H, Time: g.Header.BaseHeader.Time}, Txs: types.Txs{[]byte(fmt.Sprintf("evil=%d", bi))}}
	case 4:
		name = "genuine-data-resigned-with-other-key-under-proposer-address"
		sd.Data = *cloneData(g.Data)
	}
	sd.Signer = types.Signer{PubKey: a.pub, Address: paddr}
	bz, _ := sd.Data.MarshalBinary()
	sd.Signature, _ = a.key.Sign(bz)
	if kind%numAdvDataKinds != 4 || len(g.Data.Txs) == 0 {
		a.dataHashes[string(sd.Data.DACommitment())] = name
	}
	blob, _ := sd.MarshalBinary()
	return blob, name
}

func headerBlob(h *types.SignedHeader) []byte {
	p, err := h.ToProto()
	if err != nil {
		return nil
	}
	b, _ := proto.Marshal(p)
	return b
}

// lightAdmit is the admission pipeline go-header applies to a gossiped header on a header-only node:
// decode, Validate(), Verify against the current head.
func lightAdmit(head *types.SignedHeader, raw []byte) bool {
	h := new(types.SignedHeader)
	if err := h.UnmarshalBinary(raw); err != nil {
		return false
	}
	if err := h.Validate(); err != nil {
		return false
	}
	if err := goheader.Verify[*types.SignedHeader](head, h); err != nil {
		return false
	}
	return true
}

func c03Run(t *testing.T, s *sim.Scn) *sim.Outcome {
	if s.Cfg["whole"] == 1 {
		return c03WholeRun(t, s)
	}
	o := sim.NewOutcome()
	if p := sim.Bubble(t, func() { c03Body(t, s, o) }); p != nil {
		o.Fail("C03/panic", "", -1, fmt.Sprint(p), "no panic")
	}
	return o
}

func c03Body(t *testing.T, s *sim.Scn, o *sim.Outcome) {
	start := time.Now()
	w := sim.NewWorld(t, "c03", 1)
	defer w.Close()
	var spec []int64
	for _, op := range s.Ops {
		if op.K == "spec" {
			spec = append(spec, op.A%9)
		}
	}
	if len(spec) < 2 {
		spec = append(spec, 1, 0)
	}
	blocks, _, err := buildChain(w, spec)
	if err != nil {
		o.Count("skipped:proposer-failed", 1)
		return
	}
	f := w.AddNode(sim.NodeCfg{Name: "full"})
	fw := &followerWorld{w: w, f: f, blocks: blocks, o: o, planted: map[string]bool{}, hDeliv: map[uint64]bool{}, dDeliv: map[uint64]bool{}, id: "C03"}
	fw.fillP2P()
	if err := f.StartNode(); err != nil {
		o.Fail("C03/cannot-start", "", -1, err.Error(), "starts")
		return
	}
	adv := newAdversary(w, blocks)
	top := fw.top()
	p2pAdv := false
	lastAdvName := ""
	// checkMarks: nothing adversarial may be marked DA-included
	checkMarks := func(step int, what string) bool {
		if !f.Alive {
			return true
		}
		for hs, name := range adv.hdrHashes {
			if f.M.HeaderCache().IsDAIncluded(fmt.Sprintf("%X", []byte(hs))) || f.M.HeaderCache().IsDAIncluded(types.Hash([]byte(hs)).String()) {
				o.Fail("C03/forged-header-marked-da-included", "C03/forged-header-marked-da-included/"+name, step, fmt.Sprintf("%s: adversarial header (%s) is marked as DA-included", what, name), "only proposer-signed material is marked")
				return false
			}
		}
		// a genuine block may only be marked / reported DA-included once the proposer's own blobs are on the DA layer
		for bi, b := range blocks {
			hashStr := b.Header.Hash().String()
			if f.M.HeaderCache().IsDAIncluded(hashStr) && !fw.planted[fmt.Sprintf("%d/0", bi)] {
				o.Fail("C03/marked-da-included-without-proposers-blob", "C03/marked-da-included-without-proposers-blob/header/"+lastAdvName, step,
					fmt.Sprintf("%s: header %d is marked DA-included although the proposer's header blob is not on the DA layer (only third-party material naming it is)", what, b.H), "only the proposer's own blob makes a header DA-included")
				return false
			}
			if !b.Empty && f.M.DataCache().IsDAIncluded(b.Data.DACommitment().String()) && !fw.planted[fmt.Sprintf("%d/1", bi)] {
				shared := false
				for bj, o2 := range blocks {
					if bj != bi && bytes.Equal(o2.Header.DataHash, b.Header.DataHash) && fw.planted[fmt.Sprintf("%d/1", bj)] {
						shared = true // known finding of C07 (marks keyed by commitment): not this property's subject
					}
				}
				if !shared {
					o.Fail("C03/marked-da-included-without-proposers-blob", "C03/marked-da-included-without-proposers-blob/data/"+lastAdvName, step,
						fmt.Sprintf("%s: data of block %d is marked DA-included although the proposer's signed data is not on the DA layer", what, b.H), "only the proposer's own blob makes data DA-included")
					return false
				}
			}
		}
		if dai := f.M.GetDAIncludedHeight(); dai > 0 {
			for bi, b := range blocks {
				if b.H <= dai && !fw.planted[fmt.Sprintf("%d/0", bi)] {
					o.Fail("C03/finalized-without-proposers-blob", "C03/finalized-without-proposers-blob/"+lastAdvName, step,
						fmt.Sprintf("%s: DA-included height is %d although the proposer's header blob of block %d is not on the DA layer", what, dai, b.H), "nothing is finalized on third-party material")
					return false
				}
			}
		}
		for ds, name := range adv.dataHashes {
			if f.M.DataCache().IsDAIncluded(types.Hash([]byte(ds)).String()) {
				o.Fail("C03/forged-data-marked-da-included", "C03/forged-data-marked-da-included/"+name, step, fmt.Sprintf("%s: adversarial signed data (%s) is marked as DA-included", what, name), "only proposer-signed material is marked")
				return false
			}
		}
		return true
	}
	// deliverAll drains the FIFOs in a seeded order; returns false on a violation
	guarded := func(step int, what string, fn func() bool) bool {
		ok := fn()
		if len(f.LoopPanics) > 0 {
			o.Fail("C03/panic-on-third-party-material", "C03/panic-on-third-party-material/"+lastAdvName, step, what+": "+strings.Join(f.LoopPanics, "; "), "malformed or forged material never crashes a node")
			return false
		}
		return ok
	}
	for i, op := range s.Ops {
		switch op.K {
		case "plant":
			fw.plant(int(op.A)%len(blocks), op.B%2, uint64(op.C%4))
		case "advda":
			bi := int(op.B) % len(blocks)
			var blob []byte
			var name string
			if op.A%2 == 0 {
				var h *types.SignedHeader
				h, name = adv.header(op.A/2, bi)
				blob = headerBlob(h)
			} else {
				blob, name = adv.signedData(op.A/2, bi)
			}
			lastAdvName = name
			if blob != nil {
				cursor := w.DA.Cur() + 1
				if f.Alive && f.M.VerifDAHeight() > cursor {
					cursor = f.M.VerifDAHeight()
				}
				hgt := cursor + uint64(op.C%3)
				w.DA.Plant(hgt, blob, "adversary")
				if hgt > fw.maxDA {
					fw.maxDA = hgt
				}
				o.Count("adv-da:"+name, 1)
			}
		case "advp2p":
			bi := int(op.B) % len(blocks)
			h, name := adv.header(op.A, bi)
			lastAdvName = name
			f.HStore.Put(h.Height(), h)
			if h.Height() > top {
				// the store claims to be one block ahead
				fw.hP2P = h.Height()
				f.HStore.SetHeight(fw.hP2P)
			}
			p2pAdv = true
			o.Count("adv-p2p:"+name, 1)
		case "light":
			bi := int(op.B) % len(blocks)
			h, name := adv.header(op.A, bi)
			raw, err := h.MarshalBinary()
			if err != nil {
				continue
			}
			// the head the light node trusts: the genuine predecessor, or an earlier genuine header (non-adjacent)
			hi := int(h.Height()) - 2 - int(op.C%2)
			if hi < 0 {
				hi = 0
			}
			if hi >= len(blocks) {
				hi = len(blocks) - 1
			}
			head := cloneHeader(blocks[hi].Header)
			if head.Height() >= h.Height() {
				continue
			}
			o.Count("light-offers", 1)
			if lightAdmit(head, raw) {
				o.Fail("C03/light-node-admits-forged-header", "C03/light-node-admits-forged-header/"+name, i,
					fmt.Sprintf("header-only admission pipeline (decode, Validate, go-header Verify against head %d) accepted an adversarial header (%s) for height %d", head.Height(), name, h.Height()),
					"only headers signed by the genesis proposer's key are admitted")
				return
			}
		case "retrieve":
			w.DA.SetCur(fw.maxDA)
			if !guarded(i, "DA scan", func() bool { f.Retrieve(); return true }) {
				return
			}
		case "p2p":
			fw.hP2P = min64u(top+1, fw.hP2P+uint64(op.A%4))
			if fw.hP2P > top && !f.HStore.HasAt(nil, top+1) {
				fw.hP2P = top
			}
			fw.dP2P = min64u(top, fw.dP2P+uint64(op.B%4))
			f.HStore.SetHeight(fw.hP2P)
			f.DStore.SetHeight(fw.dP2P)
			if !guarded(i, "P2P poll", func() bool { f.PollP2P(); return true }) {
				return
			}
		case "deliver":
			if !f.Alive || f.Halted != nil {
				continue
			}
			fw.id = "C03"
			sub := sim.NewOutcome()
			fw.o = sub
			ok := guarded(i, "deliver", func() bool { return fw.deliver(i, op.A, op.B, false) })
			fw.o = o
			if !ok {
				if o.V != nil {
					return
				}
				// classify what the generic follower oracle saw
				v := sub.V
				switch {
				case strings.HasPrefix(v.Oracle, "C03/sync-halted"):
					if p2pAdv {
						// halting on junk P2P material is outside the statement (it names the DA layer)
						o.Count("halted-by-p2p-adversary(not judged)", 1)
						goto done
					}
					o.Fail("C03/halted-by-third-party-da-material", "C03/halted-by-third-party-da-material/"+lastAdvName, i, v.Observed, "third-party material on the DA layer never halts a full node")
				default:
					o.Fail("C03/forged-material-applied", "C03/forged-material-applied/"+lastAdvName, i, v.Observed, "a node never applies or stores material not signed by the genesis proposer's key")
				}
				return
			}
			for k, v := range sub.Counters {
				o.Counters[k] += v
			}
		case "include":
			if f.Alive && f.Halted == nil {
				if !guarded(i, "inclusion run", func() bool { _ = f.Include(); return true }) {
					return
				}
			}
		case "restart":
			_ = f.StopClean()
			if err := f.StartNode(); err != nil {
				o.Fail("C03/cannot-restart", "", i, err.Error(), "restarts")
				return
			}
			fw.restarts++
		}
		if !checkMarks(i, op.String()) {
			return
		}
		o.States = append(o.States, f.AbstractState())
	}
	// final: all genuine parts become available on DA; with DA-only adversaries the follower must follow the chain
	if !p2pAdv {
		for bi, b := range blocks {
			if !fw.planted[fmt.Sprintf("%d/0", bi)] {
				fw.plant(bi, 0, uint64(bi%2))
			}
			if !b.Empty && !fw.planted[fmt.Sprintf("%d/1", bi)] {
				fw.plant(bi, 1, uint64(bi%3))
			}
		}
		w.DA.SetCur(fw.maxDA + 1)
		for round := 0; round < 3 && f.Height() < top; round++ {
			if !guarded(len(s.Ops), "final DA scan", func() bool { f.Retrieve(); return true }) {
				return
			}
			for len(f.HeaderFIFO) > 0 || len(f.DataFIFO) > 0 {
				fifo := int64(0)
				if len(f.HeaderFIFO) == 0 {
					fifo = 1
				}
				sub := sim.NewOutcome()
				fw.o = sub
				ok := guarded(len(s.Ops), "final deliver", func() bool { return fw.deliver(len(s.Ops), fifo, 0, false) })
				fw.o = o
				if !ok {
					if o.V != nil {
						return
					}
					if strings.HasPrefix(sub.V.Oracle, "C03/sync-halted") {
						o.Fail("C03/halted-by-third-party-da-material", "C03/halted-by-third-party-da-material/"+lastAdvName, len(s.Ops), sub.V.Observed, "third-party material on the DA layer never halts a full node")
					} else {
						o.Fail("C03/forged-material-applied", "C03/forged-material-applied/"+lastAdvName, len(s.Ops), sub.V.Observed, "a node never applies or stores material not signed by the genesis proposer's key")
					}
					return
				}
			}
		}
		if !checkMarks(len(s.Ops), "final") {
			return
		}
		if h := f.Height(); h != top {
			o.Fail("C03/cannot-follow-chain-with-third-party-da-material", "C03/cannot-follow-chain-with-third-party-da-material/"+lastAdvName, len(s.Ops),
				fmt.Sprintf("all genuine parts are on DA and were delivered but the follower stays at height %d of %d", h, top), "third-party material on the DA layer does not prevent following the proposer's chain")
			return
		}
		fw.id = "C03"
		if !fw.checkPrefix(len(s.Ops), "final") {
			return
		}
	}
done:
	o.SimTime = time.Since(start)
	advCount := 0
	for k, v := range o.Counters {
		if strings.HasPrefix(k, "adv-") || k == "light-offers" {
			advCount += v
		}
	}
	o.NonTrivial = advCount >= 1 && o.Counters["deliveries"] >= 2
}

func c03Gen(r *rand.Rand, tier string) *sim.Scn {
	if (r.IntN(10) == 0 && os.Getenv("VERIF_NO_WHOLE") == "") || os.Getenv("VERIF_C03_WHOLE_ONLY") != "" {
		return c03WholeGen(r, tier)
	}
	s := &sim.Scn{Cfg: map[string]int64{}}
	n := 2 + r.IntN(7)
	for i := 0; i < n; i++ {
		v := int64(1 + r.IntN(3))
		if r.IntN(3) == 0 {
			v = 0
		}
		s.Ops = append(s.Ops, sim.Op{K: "spec", A: v})
	}
	m := 6 + r.IntN(8*n)
	mode := r.IntN(3) // 0: DA adversary only, 1: DA + light, 2: all incl. P2P
	for i := 0; i < m; i++ {
		switch x := r.IntN(100); {
		case x < 15:
			s.Ops = append(s.Ops, sim.Op{K: "plant", A: r.Int64N(int64(n + 1)), B: r.Int64N(2), C: r.Int64N(4)})
		case x < 35:
			s.Ops = append(s.Ops, sim.Op{K: "advda", A: r.Int64N(2 * numAdvHeaderKinds), B: r.Int64N(int64(n + 1)), C: r.Int64N(3)})
		case x < 42:
			if mode >= 1 {
				s.Ops = append(s.Ops, sim.Op{K: "light", A: r.Int64N(numAdvHeaderKinds), B: r.Int64N(int64(n + 1)), C: r.Int64N(2)})
			}
		case x < 48:
			if mode == 2 {
				s.Ops = append(s.Ops, sim.Op{K: "advp2p", A: r.Int64N(numAdvHeaderKinds), B: r.Int64N(int64(n + 1))})
			}
		case x < 60:
			s.Ops = append(s.Ops, sim.Op{K: "retrieve"})
		case x < 68:
			s.Ops = append(s.Ops, sim.Op{K: "p2p", A: r.Int64N(4), B: r.Int64N(4)})
		case x < 92:
			s.Ops = append(s.Ops, sim.Op{K: "deliver", A: r.Int64N(2), B: r.Int64N(64)})
		case x < 97:
			s.Ops = append(s.Ops, sim.Op{K: "include"})
		default:
			s.Ops = append(s.Ops, sim.Op{K: "restart"})
		}
	}
	return s
}

func TestC03(t *testing.T) {
	sim.Main(t, &sim.Check{
		ID:    "C03",
		Level: "exploration",
		Rule: "C02's world plus an adversary holding another key: 12 kinds of adversarial headers (a third party's fully self-consistent headers under its own address, mutated copies re-signed under the proposer's address, forged next height linking to the head, garbage/empty signatures, foreign chain id, field mutation keeping the genuine signature, own address naming the proposer, same-height replacement) and 4 kinds of adversarial signed data (forged under the proposer's address, without metadata, future height, matching a forged header), " +
			"published on DA, put into the P2P header store the follower polls, and offered to the header-only admission pipeline (decode, Validate, go-header Verify); interleaved with genuine traffic, arbitrary delivery order, restarts. A tenth of the scenarios are whole-node attacks: real sequencer node, full node and LightNode over a libp2p mocknet and a raw gossipsub adversary publishing the forged headers (at the next height, past heights, the head), forged data and junk; the victims' P2P header stores are read back from disk and must hold the proposer's headers only. distinct = distinct scenario hash; non-trivial = at least one adversarial item published/offered and at least 2 deliveries",
		Assumptions: []string{"Manager-level scenarios model the light node by the admission pipeline go-header applies to gossip, on real types; the whole-node scenarios run the real LightNode", "a follower halted by junk P2P material is not judged (the no-halt clause names the DA layer); applying forged material is judged wherever it came from"},
		Components:  map[string]string{"follower loops, caches, store": "real", "types.SignedHeader validation, go-header Verify": "real", "proposer chain": "real aggregator", "adversary": "harness (no access to the proposer's private key)", "DA": "stub (SimDA)", "P2P stores": "stub (Manager-level scenarios)", "node.FullNode / node.LightNode, pkg/sync, pkg/p2p, gossipsub (whole-node scenarios)": "real over libp2p mocknet"},
		Gen:         c03Gen,
		Run:         c03Run,
		QuickBudget: 30 * time.Second, ThoroughBudget: 12 * time.Minute,
	})
}
