package checks

import (
	"fmt"
	"math/rand/v2"
	"os"
	"regexp"
	"strings"
	"testing"
	"time"

	"github.com/libp2p/go-libp2p/core/peer"
	mocknet "github.com/libp2p/go-libp2p/p2p/net/mock"
	"github.com/multiformats/go-multiaddr"

	"github.com/evstack/ev-node/pkg/p2p/key"

	"verif/harness/sim"
)

// C04, whole-node families (cfg whole=1): the sequencer node is a real node.FullNode (real Run: P2P client,
// header and data sync services with their go-header stores on the same simulated disk, aggregation loop,
// reaper, submission loops) with one syncing full node as its peer, over a libp2p mocknet under the fake
// clock. After a seeded warm-up the (k+1)-th durable write of the sequencer node - whichever component
// makes it: block store, sequencer queue, P2P header/data store, peer store - does not happen and ends
// the incarnation instead (process death: database fenced, cache files as they were). A new node object
// is then started on the durable image; it must stay up and commit further blocks, and the chain must be
// valid. k runs from 0 until the crash no longer fires within the window (a family, like the
// Manager-level ones; the order of concurrent writes is the Go scheduler's, so a member is identified by
// k and the labels of the writes around the cut, and replay is best-effort).

var digitsRe = regexp.MustCompile(`[0-9]+`)

func c04WholeOnce(t *testing.T, s *sim.Scn, k int, o *sim.Outcome) (fired bool) {
	p := sim.Bubble(t, func() {
		start := time.Now()
		rw := &rworld{t: t, s: s, o: o}
		rw.bt = time.Duration(max64(100, s.Cfg["bt"])) * time.Millisecond
		rw.dat = time.Duration(max64(500, s.Cfg["dat"])) * time.Millisecond
		rw.w = sim.NewWorld(t, "c04w", 1)
		defer rw.w.Close()
		rw.mn = mocknet.New()
		defer rw.mn.Close()
		rw.streamDelay = time.Duration(20+s.Cfg["linkms"]%40) * time.Millisecond
		for i := 0; i <= 1; i++ {
			name := []string{"seq", "full1"}[i]
			priv := sim.KeyFromSeed("nodekey-" + name)
			addr, _ := multiaddr.NewMultiaddr(fmt.Sprintf("/ip4/10.0.0.%d/tcp/7676", i+1))
			pid, _ := peer.IDFromPublicKey(priv.GetPublic())
			rn := &rnode{name: name, idx: i, agg: i == 0, nk: &key.NodeKey{PrivKey: priv, PubKey: priv.GetPublic()}, addr: addr, pid: pid}
			rn.sn = rw.w.AddNode(sim.NodeCfg{Name: name, Aggregator: i == 0, BlockTime: rw.bt, DABlockTime: rw.dat})
			rw.nodes = append(rw.nodes, rn)
			if i == 0 {
				rw.aggAddr = fmt.Sprintf("%s/p2p/%s", addr, pid)
			}
		}
		rw.applyJitter()
		agg, full := rw.nodes[0], rw.nodes[1]
		rw.w.DA.AutoAdvance = true
		stopAll := func() {
			for _, rn := range rw.nodes {
				rw.stop(rn, false, -1)
			}
		}
		txn := 0
		inject := func(n int) {
			for j := 0; j < n; j++ {
				txn++
				agg.sn.Exec.InjectTx([]byte(fmt.Sprintf("k%d=v%d", txn, txn)))
			}
		}
		rw.start(agg)
		if o.V != nil {
			return
		}
		if s.Cfg["peer"] == 1 {
			time.Sleep(rw.bt + 200*time.Millisecond)
			rw.start(full)
		}
		// warm-up: the chain before the crash
		warm := time.Duration(s.Cfg["warm"]) * time.Millisecond
		for el := time.Duration(0); el < warm; el += rw.bt {
			if s.Cfg["txs"] > 0 && int64(el/rw.bt)%s.Cfg["txs"] == 0 {
				inject(1)
			}
			time.Sleep(rw.bt)
		}
		if !rw.reap(-1, "warm-up") {
			stopAll()
			return
		}
		if !agg.up {
			return
		}
		hBefore := agg.sn.Height()
		files := readImage(agg.sn.Root)
		// the crash: the (k+1)-th durable write of the sequencer node from now on
		agg.sn.Disk.Arm(k)
		inject(int(s.Cfg["txs"] % 3))
		window := 3*rw.bt + 500*time.Millisecond
		for el := time.Duration(0); el < window && !agg.sn.Disk.CrashFired; el += 50 * time.Millisecond {
			time.Sleep(50 * time.Millisecond)
		}
		fired = agg.sn.Disk.Disarm()
		if !fired {
			stopAll()
			return
		}
		cut := agg.sn.Disk.CrashPrev + "|" + agg.sn.Disk.CrashLabel
		o.Count("whole-node-crash-cut:"+digitsRe.ReplaceAllString(agg.sn.Disk.CrashLabel, "N"), 1)
		// the dying incarnation (fenced by the crash itself) winds down; nothing it does reaches the disk
		agg.cancel()
		select {
		case <-agg.done:
		case <-time.After(30 * time.Minute):
			sim.EmergencyReport("C04", s, &sim.Violation{Oracle: "C04/dying-node-never-returns", Sig: "C04/dying-node-never-returns", Step: k, Observed: "the killed sequencer node's Run never returned (harness cannot continue)", Expected: "returns"})
			return
		}
		agg.up = false
		agg.closeHost()
		restoreDir(agg.sn.Root, files)
		committed := agg.sn.Height()
		fail := func(oracle, obs, exp string) {
			o.Fail(oracle, oracle+"/cut="+cut, k, fmt.Sprintf("[whole node, crash point %d, cut %s, chain height before the crash window %d, on disk after it %d] %s", k, cut, hBefore, committed, obs), exp)
		}
		// the node stays down for a seeded while (0, 1.5 or 6 block times) before the operator starts it again
		time.Sleep([]time.Duration{0, 3 * rw.bt / 2, 6 * rw.bt}[s.Cfg["down"]%3])
		// restart on the durable image; the operator tries three times. A node that commits a block and then
		// shuts itself down has not resumed production.
		healthy := false
		var lastErr error
		gaveUp := 0
		for attempt := 0; attempt < 3 && !healthy; attempt++ {
			h0 := agg.sn.Height()
			rw.start(agg)
			if o.V != nil {
				stopAll()
				return
			}
			stillUp := true
			for el := time.Duration(0); el < 12*rw.bt+3*time.Second && stillUp; el += rw.bt {
				time.Sleep(rw.bt)
				select {
				case <-agg.done:
					stillUp = false
				default:
				}
			}
			if stillUp {
				if agg.sn.Height() >= h0+3 {
					healthy = true
				}
				break
			}
			agg.up = false
			agg.closeHost()
			agg.sn.Fence.Kill()
			lastErr = agg.err
			gaveUp++
			o.Count("whole-node-restart:node-gave-up", 1)
		}
		if !healthy {
			what := fmt.Sprintf("stays up but committed fewer than 3 blocks in 12 block times (height %d)", agg.sn.Height())
			if !agg.up {
				what = fmt.Sprintf("shut itself down each time (%d times; Run returned: %v; height now %d)", gaveUp, lastErr, agg.sn.Height())
			}
			fail("C04/whole-node-wedged-after-crash", "restarted on the durable image, the sequencer node "+what, "after a restart the node resumes producing blocks and keeps running")
			stopAll()
			return
		}
		time.Sleep(3 * rw.bt)
		stopAll()
		if o.V != nil {
			return
		}
		ah := agg.sn.Height()
		if msg, _ := rw.w.VerifyChain(agg.sn.Peek(), 1, ah, nil); msg != "" {
			fail("C04/invalid-chain-after-recovery", msg, "a valid chain")
			return
		}
		if msg := rw.w.CheckQuiescent(agg.sn.Peek()); msg != "" {
			fail("C04/height-state-blocks-disagree", msg, "recorded height, recorded state and stored blocks agree")
			return
		}
		o.SimTime += time.Since(start)
		o.States = append(o.States, fmt.Sprintf("whole/%d/%s", ah, cut))
	})
	if p != nil {
		msg := fmt.Sprint(p)
		if !strings.Contains(msg, "deadlock") {
			o.Fail("C04/panic", "", k, fmt.Sprintf("[whole node, crash point %d] %v", k, p), "no panic")
		}
	}
	return fired
}

func c04WholeRun(t *testing.T, s *sim.Scn) *sim.Outcome {
	o := sim.NewOutcome()
	images := 0
	step := int(max64(1, s.Cfg["kstep"]))
	maxMembers := 400
	if os.Getenv("VERIF_TIER") != "thorough" && os.Getenv("VERIF_REPLAY") == "" {
		maxMembers = 10 // quick tier: a sample of the family (seeded first index and stride)
	}
	for k := int(s.Cfg["k0"]); k < 400 && images < maxMembers && o.V == nil; k += step {
		sub := sim.NewOutcome()
		fired := c04WholeOnce(t, s, k, sub)
		o.Absorb(sub)
		images++
		o.Logf("member k=%d fired=%v counters=%v", k, fired, sub.Counters)
		if !fired {
			break
		}
		o.Count("whole-node-crash-points", 1)
	}
	o.Count("crash-images-restarted", images)
	o.NonTrivial = o.Counters["whole-node-crash-points"] >= 3
	return o
}

func c04WholeGen(r *rand.Rand, tier string) *sim.Scn {
	s := &sim.Scn{Cfg: map[string]int64{"whole": 1, "bt": []int64{200, 500, 1000}[r.IntN(3)], "dat": 1000, "peer": r.Int64N(2),
		"warm": []int64{0, 0, 300, 1200, 2500, 6000}[r.IntN(6)], "txs": r.Int64N(3), "lazy": 0, "k0": r.Int64N(3), "kstep": 1 + r.Int64N(3), "eager": r.Int64N(2), "linkms": r.Int64N(40), "down": r.Int64N(3), "jitter": []int64{0, 0, 0, 400, 4000}[r.IntN(5)], "jsalt": r.Int64N(1 << 30)}}
	if tier == "thorough" {
		s.Cfg["kstep"] = 1
		s.Cfg["k0"] = 0
	}
	if tier != "thorough" && s.Cfg["jitter"] > 400 {
		s.Cfg["jitter"] = 400 // the slowest goroutines make a whole-node scenario take minutes: thorough tier only
	}
	return s
}
