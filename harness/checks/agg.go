package checks

import (
	"bytes"
	"context"
	"fmt"
	"time"

	coresequencer "github.com/evstack/ev-node/core/sequencer"

	"verif/harness/sim"
)

// aggRun interprets aggregator-side operations shared by several checks (C04, C06, C07, C08, C11).
//
//	same(A=class)        submit a batch with a fixed tx list straight to the sequencer (identical blocks)
//	tx(A=n, B=content)   inject n transactions (B=0: unique bytes; B>0: repeat of an earlier content class)
//	reap                 one reaper iteration
//	produce              one publishBlock
//	sleep(A=ms)          advance the clock
//	subh / subd          one iteration of the header / data submission loop body
//	include              let the DA includer loop consume its pending signal
//	stop                 clean stop (caches saved) + start
//	kill                 crash between two activities + start
//	da(A=kind,B=n,C=adv) append one scripted DA submit outcome
//
// Any op may carry a crash point: the caller passes crashK >= 0 to cut the (crashK+1)-th durable write.
type aggRun struct {
	w       *sim.World
	n       *sim.Node
	o       *sim.Outcome
	ih      uint64
	txSeq   int
	exposed map[uint64][]byte // height -> header hash of a block that was committed or published
	genesis []byte
	// Injected holds every transaction injected into the mempool (in order).
	Injected [][]byte
	restarts int
	crashes  int
	cutLabel string // "<last write done>|<first write cut>" of the most recent fired crash
}

func newAggRun(w *sim.World, n *sim.Node, o *sim.Outcome) *aggRun {
	return &aggRun{w: w, n: n, o: o, ih: w.Genesis.InitialHeight, exposed: map[uint64][]byte{}}
}

func (r *aggRun) start(step int, id string) bool {
	if err := r.n.StartNode(); err != nil {
		sig := id + "/cannot-start"
		if r.cutLabel != "" {
			sig += "/cut=" + r.cutLabel
		}
		r.o.Fail(id+"/cannot-start", sig, step, fmt.Sprintf("restart failed: %v", err), "the node starts on whatever it had persisted")
		return false
	}
	if r.genesis == nil {
		r.genesis = r.n.M.GetLastState().AppHash
		if h := r.n.Height(); h >= r.ih {
			r.genesis = nil // not a fresh chain; unknown
		}
	}
	return true
}

// noteExposed records blocks that are now committed (durable chain height) or published (broadcast).
// It returns a description if an already exposed height now holds a different block.
func (r *aggRun) noteExposed() string {
	ctx := context.Background()
	st := r.n.Peek()
	h, _ := st.Height(ctx)
	for x := r.ih; x <= h; x++ {
		hdr, err := st.GetHeader(ctx, x)
		if err != nil {
			continue
		}
		if prev, ok := r.exposed[x]; ok {
			if !bytes.Equal(prev, hdr.Hash()) {
				return fmt.Sprintf("height %d was committed/published with header %x and now holds header %x", x, prev[:6], []byte(hdr.Hash())[:6])
			}
		} else {
			r.exposed[x] = hdr.Hash()
		}
	}
	if r.n.HB != nil {
		for _, bh := range r.n.HB.All() {
			if prev, ok := r.exposed[bh.Height()]; ok {
				if !bytes.Equal(prev, bh.Hash()) {
					return fmt.Sprintf("height %d was committed with header %x but header %x was broadcast", bh.Height(), prev[:6], []byte(bh.Hash())[:6])
				}
			} else {
				r.exposed[bh.Height()] = bh.Hash()
			}
		}
	}
	return ""
}

func (r *aggRun) nextTx(class int64) []byte {
	r.txSeq++
	if class > 0 {
		return []byte(fmt.Sprintf("k%d=repeat", class))
	}
	return []byte(fmt.Sprintf("k%d=v%d", r.txSeq, r.txSeq))
}

// exec performs one op with an optional crash point; it reports whether the crash fired and the
// activity's error (nil for activities that return none).
func (r *aggRun) exec(op sim.Op, crashK int) (fired bool, err error) {
	n := r.n
	switch op.K {
	case "tx":
		cnt := int(op.A%4) + 1
		for j := 0; j < cnt; j++ {
			tx := r.nextTx(op.B % 3)
			r.Injected = append(r.Injected, tx)
			n.Exec.InjectTx(tx)
		}
		return false, nil
	case "same":
		// a client other than the reaper hands the sequencer a batch with a fixed transaction list
		// (two blocks with identical contents; the reaper itself never resubmits bytes it has seen)
		if n.Alive && n.Seq != nil {
			txs := [][]byte{[]byte(fmt.Sprintf("same%d=1", op.A%2))}
			_, _ = n.Seq.SubmitBatchTxs(context.Background(), coresequencer.SubmitBatchTxsRequest{Id: []byte(n.W.Genesis.ChainID), Batch: &coresequencer.Batch{Transactions: txs}})
		}
		return false, nil
	case "sleep":
		ms := op.A
		if ms <= 0 {
			ms = 1000
		}
		time.Sleep(time.Duration(ms) * time.Millisecond)
		return false, nil
	case "da":
		n.DAOf().SubmitScript = append(n.DAOf().SubmitScript, sim.SubmitOutcome{Kind: sim.SubmitKind(op.A % 14), N: int(op.B), Advance: op.C%2 == 1})
		return false, nil
	case "daadv":
		n.DAOf().Advance(1)
		return false, nil
	}
	if !n.Alive {
		return false, nil
	}
	var f func()
	switch op.K {
	case "reap":
		f = func() { n.Reap() }
	case "produce":
		f = func() { err = n.Produce() }
	case "subh", "subd":
		// the real submission loop runs for A ticks of the DA block time (plus half a tick), then is cancelled
		ticks := 1 + op.A%3
		if op.A >= 90 {
			ticks = 200 // long window: lets a 30-attempt back-off sequence finish
		}
		d := time.Duration(ticks)*n.Cfg.DABlockTime + n.Cfg.DABlockTime/2
		loop := n.M.HeaderSubmissionLoop
		if op.K == "subd" {
			loop = n.M.DataSubmissionLoop
		}
		f = func() { n.RunLoopFor(op.K, loop, d) }
	case "include":
		f = func() { err = n.Include() }
	case "stop":
		_ = n.StopClean()
		r.restarts++
		return false, nil
	case "kill":
		n.Crash()
		r.crashes++
		return true, nil
	default:
		return false, nil
	}
	fired = n.WithCrash(crashK, f)
	if fired {
		r.crashes++
		r.cutLabel = n.Disk.CrashPrev + "|" + n.Disk.CrashLabel
		if n.Disk.CrashLabel == "" {
			r.cutLabel = "at-da-call"
		}
		err = nil
	}
	return fired, err
}
