package checks

import (
	"bytes"
	"fmt"
	"math/rand/v2"
	"strings"
	"testing"
	"time"

	"google.golang.org/protobuf/proto"

	pb "github.com/evstack/ev-node/types/pb/evnode/v1"

	"github.com/evstack/ev-node/block"

	"verif/harness/sim"
)

// C09 — DA scanning never skips a height, retries on failure, survives any blob.
//
// World: a real follower's RetrieveLoop (with the real RetrieveWithHelpers chunking) against the
// simulated DA layer. The scenario fixes the DA contents (genuine header/data blobs of a real
// proposer chain mixed with junk, up to 150+ blobs per height), per-height fetch outcome sequences,
// the configured start height and when the DA height advances / the loop is signalled.
//
// ops:  spec(A)                       one more proposer block
//       blob(A=height off, B=kind, C) one blob at start+off: 0 genuine header C, 1 genuine data C, 2 truncated
//                                     genuine blob, 3 absurd length prefix, 4 other message type, 5 empty, 6 random
//                                     bytes, 7 bulk of 95..154 small junk blobs (forces a second Get chunk), 8 a genuine
//                                     message re-encoded with one part missing or damaged
//       script(A=height off,B=kind,C) one more fetch outcome for that height (not-found claim, future, listing
//                                     error, error on Get chunk C%2; (C>>1)%6 picks the error: generic, a DA-side cancellation, wrapping
//                                     context.DeadlineExceeded / the DA deadline error / ErrTxTimedOut, or a call that hangs until the fetch timeout)
//       retrieve(A)                   make A%4 more DA heights exist, signal the loop, let it run until idle

func c09Junk(kind int64, c int64, genuine []byte) [][]byte {
	switch kind {
	case 2:
		if len(genuine) < 2 {
			return [][]byte{{0x0a}}
		}
		return [][]byte{genuine[:1+int(c)%(len(genuine)-1)]}
	case 3:
		// field 1, length-delimited, with an absurd varint length, then a few bytes
		return [][]byte{append([]byte{0x0a, 0xff, 0xff, 0xff, 0xff, 0xff, 0xff, 0xff, 0xff, 0x7f}, byte(c), 1, 2, 3)}
	case 4:
		var m proto.Message
		switch c % 3 {
		case 0:
			m = &pb.Batch{Txs: [][]byte{[]byte("a"), []byte("b")}}
		case 1:
			m = &pb.Metadata{ChainId: "c09", Height: uint64(c), Time: 5}
		default:
			m = &pb.State{ChainId: "c09", InitialHeight: 1, LastBlockHeight: uint64(c)}
		}
		b, _ := proto.Marshal(m)
		return [][]byte{b}
	case 5:
		return [][]byte{{}}
	case 6:
		r := rand.New(rand.NewPCG(uint64(c), 9))
		b := make([]byte, 1+r.IntN(200))
		for i := range b {
			b[i] = byte(r.IntN(256))
		}
		return [][]byte{b}
	case 8:
		// well-formed protobuf of the right message type with one part missing or damaged
		v := (c / 2) % 8
		bad := []byte{1, 2, 3}
		var sd pb.SignedData
		var sh pb.SignedHeader
		if c%2 == 1 && proto.Unmarshal(genuine, &sd) == nil && sd.Data != nil && sd.Data.Metadata != nil && sd.Data.Metadata.ChainId != "" && len(sd.Data.ProtoReflect().GetUnknown()) == 0 {
			switch v {
			case 0:
				sd.Data.Metadata = nil
			case 1:
				sd.Data = nil
			case 2:
				sd.Signer = nil
			case 3:
				sd.Signature = nil
			case 4:
				if sd.Signer != nil {
					sd.Signer.PubKey = nil
				}
			case 5:
				if sd.Signer != nil {
					sd.Signer.PubKey = bad
				}
			case 6:
				sd.Data.Txs = nil
			default:
				sd = pb.SignedData{Data: &pb.Data{Txs: [][]byte{[]byte("x")}}}
			}
			b, _ := proto.Marshal(&sd)
			return [][]byte{b}
		}
		if proto.Unmarshal(genuine, &sh) == nil && sh.Header != nil && sh.Header.ChainId != "" && len(sh.Header.ProtoReflect().GetUnknown()) == 0 {
			switch v {
			case 0:
				sh.Header = nil
			case 1:
				sh.Header.Version = nil // alone this is the same header when the version is zero, hence:
				sh.Signature = bad
			case 2:
				sh.Signer = nil
			case 3:
				sh.Signature = nil
			case 4:
				if sh.Signer != nil {
					sh.Signer.PubKey = nil
				}
			case 5:
				if sh.Signer != nil {
					sh.Signer.PubKey = bad
				}
			case 6:
				sh.Header = &pb.Header{}
			default:
				sh.Header.LastHeaderHash = bad
				sh.Header.DataHash = nil
			}
			b, _ := proto.Marshal(&sh)
			return [][]byte{b}
		}
		return [][]byte{{0x0a, 0x03, 0x12, 0x01, 0x78}}
	case 7:
		n := 95 + int(c%60)
		out := make([][]byte, n)
		for i := range out {
			out[i] = []byte(fmt.Sprintf("junk-%d-%d", c, i))
		}
		return out
	}
	return nil
}

func c09Run(t *testing.T, s *sim.Scn) *sim.Outcome {
	o := sim.NewOutcome()
	if p := sim.Bubble(t, func() { c09Body(t, s, o) }); p != nil {
		o.Fail("C09/panic", "", -1, fmt.Sprint(p), "no panic")
	}
	return o
}

type c09Genuine struct {
	kind  int // 0 header, 1 data
	block int
	da    uint64
}

func c09Body(t *testing.T, s *sim.Scn, o *sim.Outcome) {
	startT := time.Now()
	w := sim.NewWorld(t, "c09", 1)
	defer w.Close()
	var spec []int64
	for _, op := range s.Ops {
		if op.K == "spec" {
			spec = append(spec, op.A%10)
		}
	}
	if len(spec) == 0 {
		spec = []int64{1}
	}
	w.CustomPayload = s.Cfg["payload"] == 1 // a chain whose sequencer signs a custom payload (ManagerOptions.SignaturePayloadProvider)
	blocks, _, err := buildChain(w, spec)
	if err != nil {
		o.Count("skipped:proposer-failed", 1)
		return
	}
	start := uint64(s.Cfg["start"])
	// the pending-block limit is a sequencer setting; a follower configured with one (operators share
	// configuration files) must scan exactly like one without
	f := w.AddNode(sim.NodeCfg{Name: "full", DAStartHeight: start, MaxPending: uint64(s.Cfg["fmaxpending"])})
	if err := f.StartNode(); err != nil {
		o.Fail("C09/cannot-start", "", -1, err.Error(), "starts")
		return
	}
	da := w.DA
	da.EmptyStyle = int(s.Cfg["empty"] % 3)
	first := start
	if first == 0 {
		first = 0
	}
	var genuine []c09Genuine
	maxContent := first
	// contents and scripts are fixed up front (DA heights are immutable once they exist)
	for _, op := range s.Ops {
		switch op.K {
		case "blob":
			h := first + uint64(op.A%8)
			if h > maxContent {
				maxContent = h
			}
			bi := int(op.C) % len(blocks)
			switch op.B % 9 {
			case 0:
				da.Plant(h, blocks[bi].HBlob, "proposer")
				genuine = append(genuine, c09Genuine{0, bi, h})
			case 1:
				if blocks[bi].DBlob != nil {
					da.Plant(h, blocks[bi].DBlob, "proposer")
					genuine = append(genuine, c09Genuine{1, bi, h})
				}
			default:
				g := blocks[bi].HBlob
				if op.C%2 == 1 && blocks[bi].DBlob != nil {
					g = blocks[bi].DBlob
				}
				for _, j := range c09Junk(op.B%9, op.C, g) {
					da.Plant(h, j, "third-party")
				}
				o.Count(fmt.Sprintf("junk-kind-%d", op.B%9), 1)
			}
		case "script":
			h := first + uint64(op.A%8)
			k := sim.ReadKind(1 + op.B%5) // 1-4 failures, 5 a correct answer that takes longer than the request timeout
			da.ReadScript[h] = append(da.ReadScript[h], sim.ReadOutcome{Kind: k, Chunk: int(op.C % 2), Flavor: int(op.C>>1) % 6})
		}
	}
	callsSeen := 0
	cursor := first      // the height the scan must examine next
	lastOK := true       // did the last fetch of `cursor-in-progress` complete
	inFetch := uint64(0) // height of the fetch in progress
	fetching := false
	pendingChunks := false
	_ = pendingChunks
	scanLog := func(step int) bool {
		calls := da.CallsSince(callsSeen)
		callsSeen += len(calls)
		for _, c := range calls {
			if c.By != "full" {
				continue
			}
			switch c.Op {
			case "getids":
				if fetching && lastOK && c.Height == inFetch+1 {
					cursor = inFetch + 1
				}
				if c.Height != cursor {
					if c.Height == cursor+1 && fetching && !lastOK {
						o.Fail("C09/advanced-past-failed-height", "", step, fmt.Sprintf("height %d was requested although the last fetch of height %d did not succeed", c.Height, cursor), "the same height is retried after an error or a not-yet-produced height")
					} else {
						o.Fail("C09/heights-not-in-order", "", step, fmt.Sprintf("height %d requested, expected %d", c.Height, cursor), "heights are examined in increasing order from the configured start, none skipped")
					}
					return false
				}
				fetching, inFetch = true, c.Height
				switch {
				case c.Outcome == "empty" || c.Outcome == "not-found-err":
					lastOK = true
				case strings.HasPrefix(c.Outcome, "ok"):
					lastOK = true // provisional: Get chunks follow
				default:
					lastOK = false
				}
			case "get":
				if c.Outcome != "ok" {
					lastOK = false
				}
			}
		}
		return true
	}
	retrieves := 0
	for i, op := range s.Ops {
		if op.K != "retrieve" {
			continue
		}
		retrieves++
		da.SetCur(min64u(maxContent+2, da.Cur()+uint64(op.A%4)))
		if da.Cur() < first {
			da.SetCur(first)
		}
		if s.Cfg["backlog"] == 1 && retrieves == 1 {
			// the sync loop is far behind (a long catch-up): its input channels are full when the scan hands over
			f.RetrieveWithBacklog(block.NewHeaderEvent{Header: cloneHeader(blocks[0].Header)}, block.NewDataEvent{Data: cloneData(blocks[0].Data)})
			o.Count("retrieves-with-full-sync-inbox", 1)
		} else {
			f.Retrieve()
		}
		if len(f.LoopPanics) > 0 {
			o.Fail("C09/panic-in-scan", "", i, strings.Join(f.LoopPanics, "; "), "arbitrary blob bytes never crash the scan")
			return
		}
		if !scanLog(i) {
			return
		}
		if da.Overrun {
			o.Fail("C09/scan-busy-loops", "", i, "the scan issued thousands of DA requests without waiting for a signal or for time to pass", "waits for the next signal after a failure")
			return
		}
		o.States = append(o.States, fmt.Sprintf("cur=%d dah=%d ev=%d/%d", da.Cur(), f.M.VerifDAHeight(), len(f.HeaderFIFO), len(f.DataFIFO)))
		o.Logf("%d retrieve cur=%d dah=%d events=%d/%d", i, da.Cur(), f.M.VerifDAHeight(), len(f.HeaderFIFO), len(f.DataFIFO))
	}
	for k, v := range da.Stats {
		o.Count("da:"+k, v)
	}
	// faults stop: remaining scripted failures are finite; every content height must be left successfully
	da.SetCur(maxContent + 1)
	budget := 4
	for _, sc := range da.ReadScript {
		budget += len(sc)
	}
	for j := 0; j < budget && f.M.VerifDAHeight() <= maxContent; j++ {
		f.Retrieve()
		if len(f.LoopPanics) > 0 {
			o.Fail("C09/panic-in-scan", "", len(s.Ops), strings.Join(f.LoopPanics, "; "), "arbitrary blob bytes never crash the scan")
			return
		}
		if !scanLog(len(s.Ops) + j) {
			return
		}
	}
	if f.M.VerifDAHeight() <= maxContent {
		o.Fail("C09/scan-stalled", "", len(s.Ops), fmt.Sprintf("after %d signals with a healthy DA the scan is still at height %d (content up to %d)", budget, f.M.VerifDAHeight(), maxContent), "the scan makes progress once fetches succeed")
		return
	}
	// every genuine item was handed to sync, nothing else was
	hdrEvents := map[string]map[uint64]int{}
	for _, e := range f.HeaderFIFO {
		k := string(e.Header.Hash())
		if hdrEvents[k] == nil {
			hdrEvents[k] = map[uint64]int{}
		}
		hdrEvents[k][e.DAHeight]++
	}
	dataEvents := map[string]map[uint64]int{}
	for _, e := range f.DataFIFO {
		if e.Data.Metadata == nil {
			o.Fail("C09/foreign-event-emitted", "", len(s.Ops), "a data event without metadata was handed to sync", "only genuine items")
			return
		}
		k := fmt.Sprintf("%d/%x", e.Data.Metadata.Height, []byte(e.Data.DACommitment()))
		if dataEvents[k] == nil {
			dataEvents[k] = map[uint64]int{}
		}
		dataEvents[k][e.DAHeight]++
	}
	genuineH := map[string]map[uint64]bool{}
	genuineD := map[string]map[uint64]bool{}
	firstAt := map[string]uint64{}
	for _, g := range genuine {
		var k string
		m := genuineH
		if g.kind == 0 {
			k = string(blocks[g.block].Header.Hash())
		} else {
			k = fmt.Sprintf("%d/%x", blocks[g.block].H, []byte(blocks[g.block].Data.DACommitment()))
			m = genuineD
		}
		if m[k] == nil {
			m[k] = map[uint64]bool{}
		}
		m[k][g.da] = true
		if fa, ok := firstAt[k]; !ok || g.da < fa {
			firstAt[k] = g.da
		}
	}
	for k, hs := range genuineH {
		if len(hdrEvents[k]) == 0 {
			o.Fail("C09/genuine-header-not-handed-to-sync", "", len(s.Ops), fmt.Sprintf("a genuine header blob at DA height(s) %v was never handed to sync", keysOf(hs)), "every genuine header at an examined height is handed to sync")
			return
		}
		if hdrEvents[k][firstAt[k]] == 0 {
			o.Fail("C09/genuine-header-not-handed-to-sync", "", len(s.Ops), fmt.Sprintf("first occurrence (DA height %d) of a genuine header was not handed to sync", firstAt[k]), "first occurrence is handed over")
			return
		}
	}
	for k, hs := range genuineD {
		if len(dataEvents[k]) == 0 || dataEvents[k][firstAt[k]] == 0 {
			o.Fail("C09/genuine-data-not-handed-to-sync", "", len(s.Ops), fmt.Sprintf("genuine data %s at DA height(s) %v was not handed to sync (first occurrence %d)", strings.SplitN(k, "/", 2)[0], keysOf(hs), firstAt[k]), "every genuine data blob at an examined height is handed to sync")
			return
		}
	}
	for k, hs := range hdrEvents {
		for h := range hs {
			if !genuineH[k][h] {
				o.Fail("C09/foreign-event-emitted", "", len(s.Ops), fmt.Sprintf("a header event with DA height %d matches no genuine blob at that height", h), "only genuine items, with the height they were found at")
				return
			}
		}
	}
	for k, hs := range dataEvents {
		for h := range hs {
			if !genuineD[k][h] {
				o.Fail("C09/foreign-event-emitted", "", len(s.Ops), fmt.Sprintf("a data event (%s) with DA height %d matches no genuine blob at that height", strings.SplitN(k, "/", 2)[0], h), "only genuine items, with the height they were found at")
				return
			}
		}
	}
	// the bytes handed over are the bytes on DA
	for _, e := range f.HeaderFIFO {
		ok := false
		for _, b := range blocks {
			if bytes.Equal(b.Header.Hash(), e.Header.Hash()) {
				ok = true
			}
		}
		if !ok {
			o.Fail("C09/foreign-event-emitted", "", len(s.Ops), "a header event that is not one of the proposer's headers", "only genuine items")
			return
		}
	}
	o.SimTime = time.Since(startT)
	faults := 0
	for k, v := range da.Stats {
		if strings.HasPrefix(k, "read:") && k != "read:ok" {
			faults += v
		}
	}
	o.NonTrivial = retrieves >= 1 && len(genuine) >= 1 && faults >= 1
}

func c09Gen(r *rand.Rand, tier string) *sim.Scn {
	s := &sim.Scn{Cfg: map[string]int64{"start": r.Int64N(21), "empty": r.Int64N(3), "fmaxpending": []int64{0, 0, 0, 1, 2, 5}[r.IntN(6)], "payload": int64(r.IntN(4) / 3), "backlog": int64(r.IntN(30) / 29)}}
	n := 1 + r.IntN(6)
	for i := 0; i < n; i++ {
		v := int64(1 + r.IntN(3))
		if r.IntN(3) == 0 {
			v = 0
		}
		s.Ops = append(s.Ops, sim.Op{K: "spec", A: v})
	}
	nb := 2 + r.IntN(25)
	pJunk := r.IntN(70)
	for i := 0; i < nb; i++ {
		op := sim.Op{K: "blob", A: r.Int64N(8), B: r.Int64N(2), C: r.Int64N(1000)}
		if r.IntN(100) < pJunk {
			op.B = 2 + r.Int64N(5)
			if r.IntN(12) == 0 {
				op.B = 7
			}
			if r.IntN(4) == 0 {
				op.B = 8
			}
		}
		s.Ops = append(s.Ops, op)
	}
	ns := r.IntN(12)
	for i := 0; i < ns; i++ {
		s.Ops = append(s.Ops, sim.Op{K: "script", A: r.Int64N(8), B: []int64{0, 1, 2, 3, 0, 1, 2, 3, 4}[r.IntN(9)], C: r.Int64N(12)})
	}
	nr := 1 + r.IntN(12)
	for i := 0; i < nr; i++ {
		s.Ops = append(s.Ops, sim.Op{K: "retrieve", A: r.Int64N(4)})
	}
	return s
}

func TestC09(t *testing.T) {
	sim.Main(t, &sim.Check{
		ID:    "C09",
		Level: "exploration",
		Rule: "seeded DA contents over 8 heights from a seeded start height 0..20: genuine header/data blobs of a real proposer chain mixed with junk (truncated genuine blobs, absurd length prefixes, other message types, genuine messages re-encoded with one part missing or damaged (no metadata, no data, no signer, no signature, no/garbled public key, no header, no version, transactions only), empty, random bytes, bulks of 95-154 blobs that force a second Get chunk), per-height outcome sequences (not-found claim on empty heights, from the future, listing error, error on Get chunk 0/1), three styles of reporting an empty height, seeded DA-height advances and signals; " +
			"oracle on the DA call log and on the events handed to sync. distinct = distinct scenario hash; non-trivial = at least one genuine blob, one signal and one read fault fired",
		Assumptions: []string{"junk does not include self-consistent forgeries signed by a third party (whether those are admitted is C03's question)", "a DA layer never claims 'not found' for a height that holds blobs (such a script entry degrades to a listing error)"},
		Components:  map[string]string{"block.RetrieveLoop / processNextDAHeaderAndData / handlePotentialHeader / handlePotentialData": "real", "types.RetrieveWithHelpers (chunking)": "real", "proposer chain and blobs": "real aggregator", "DA": "stub (SimDA)"},
		Gen:         c09Gen,
		Run:         c09Run,
		QuickBudget: 30 * time.Second, ThoroughBudget: 10 * time.Minute,
	})
}
