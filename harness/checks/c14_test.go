package checks

import (
	"bytes"
	"context"
	"fmt"
	"math/rand/v2"
	"os"
	"testing"
	"time"

	ds "github.com/ipfs/go-datastore"

	"github.com/evstack/ev-node/pkg/store"
	"github.com/evstack/ev-node/types"

	"verif/harness/sim"
)

// C14 — the block store behaves like a height-indexed map, atomically and durably.
//
// World: the real store.DefaultStore over the simulated disk (or, in a fraction of thorough runs, a real
// on-disk badger). Operations are interpreted against a map model operation by operation; after every
// operation the whole universe (heights, hashes, state, metadata keys) is read back and compared.

const (
	c14Heights  = 6
	c14Variants = 3
)

var c14MetaKeys = []string{
	store.DAIncludedHeightKey, store.LastBatchDataKey, store.LastSubmittedHeaderHeightKey, "last-submitted-data-height",
	store.RollkitHeightToDAHeightKey + "/1/h", store.RollkitHeightToDAHeightKey + "/1/d",
	store.RollkitHeightToDAHeightKey + "/2/h", store.RollkitHeightToDAHeightKey + "/12/d",
}

type c14Block struct {
	hdr  *types.SignedHeader
	data *types.Data
	sig  types.Signature
	hb   []byte // header bytes
	db   []byte // data bytes
}

type c14Model struct {
	blocks map[uint64]*c14Block
	byHash map[string]uint64
	height uint64
	off    uint64 // every height of the scenario is this much above the small numbers the operations name
	state  []byte // nil = never written
	meta   map[string][]byte
}

func newC14Model() *c14Model {
	return &c14Model{blocks: map[uint64]*c14Block{}, byHash: map[string]uint64{}, meta: map[string][]byte{}}
}

func (m *c14Model) clone() *c14Model {
	n := newC14Model()
	n.off = m.off
	for k, v := range m.blocks {
		n.blocks[k] = v
	}
	for k, v := range m.byHash {
		n.byHash[k] = v
	}
	for k, v := range m.meta {
		n.meta[k] = v
	}
	n.height = m.height
	n.state = m.state
	return n
}

var c14Pub = sim.KeyFromSeed("c14").GetPublic()

func c14MakeBlock(h uint64, variant int64, ntx int64) *c14Block {
	addr := types.KeyAddress(c14Pub)
	hdr := &types.SignedHeader{
		Header: types.Header{
			BaseHeader:      types.BaseHeader{ChainID: "c14", Height: h, Time: uint64(1e18 + h*1000 + uint64(variant))},
			LastHeaderHash:  bytes.Repeat([]byte{byte(h)}, 32),
			AppHash:         bytes.Repeat([]byte{byte(variant + 1)}, 32),
			ProposerAddress: addr,
			ConsensusHash:   make([]byte, 32),
			ValidatorHash:   make([]byte, 32),
		},
		Signature: bytes.Repeat([]byte{byte(h), byte(variant)}, 32),
		Signer:    types.Signer{PubKey: c14Pub, Address: addr},
	}
	d := &types.Data{Metadata: &types.Metadata{ChainID: "c14", Height: h, Time: hdr.BaseHeader.Time}, Txs: types.Txs{}}
	for i := int64(0); i < ntx; i++ {
		d.Txs = append(d.Txs, types.Tx(fmt.Sprintf("tx-%d-%d-%d", h, variant, i)))
	}
	hdr.DataHash = d.DACommitment()
	// the signature stored beside the block: its own bytes, the very signature the header carries (what the node's
	// final save passes), or none yet (what the node's early save of a pending block passes)
	sig := types.Signature(bytes.Repeat([]byte{byte(variant + 7), byte(h)}, 32))
	switch variant % 3 {
	case 1:
		sig = append(types.Signature(nil), hdr.Signature...)
	case 2:
		if variant%2 == 0 {
			sig = types.Signature{}
		}
	}
	hb, _ := hdr.MarshalBinary()
	db, _ := d.MarshalBinary()
	return &c14Block{hdr: hdr, data: d, sig: sig, hb: hb, db: db}
}

// c14State: base state v with exactly one field moved by d (field 0 = none): consecutive writes that differ in
// one field only are what the node does not do and a store must still get right.
func c14State(v, field, d int64) types.State {
	s := types.State{
		Version: types.Version{Block: 11, App: uint64(v)}, ChainID: "c14", InitialHeight: 1,
		LastBlockHeight: uint64(v), LastBlockTime: time.Unix(0, 1e18+v).UTC(), DAHeight: uint64(v * 3),
		AppHash: bytes.Repeat([]byte{byte(v)}, 32), LastResultsHash: bytes.Repeat([]byte{byte(v + 100)}, 32),
	}
	d = 1 + d%3
	switch field % 9 {
	case 1:
		s.DAHeight += uint64(d)
	case 2:
		s.AppHash = bytes.Repeat([]byte{byte(v + 40*d)}, 32)
	case 3:
		s.LastBlockTime = s.LastBlockTime.Add(time.Duration(d))
	case 4:
		s.LastBlockHeight += uint64(10 * d)
	case 5:
		s.Version.App += uint64(10 * d)
	case 6:
		s.LastResultsHash = bytes.Repeat([]byte{byte(v + 50*d)}, 32)
	case 7:
		s.InitialHeight += uint64(d)
	case 8:
		s.Version.Block += uint64(d)
	}
	return s
}

func c14StateBytes(s types.State) []byte {
	return []byte(fmt.Sprintf("%d/%d/%s/%d/%d/%d/%d/%x/%x", s.Version.Block, s.Version.App, s.ChainID, s.InitialHeight, s.LastBlockHeight, s.LastBlockTime.UnixNano(), s.DAHeight, s.AppHash, s.LastResultsHash))
}

// c14Verify reads the whole universe back and compares with the model; "" = equal.
func c14Verify(ctx context.Context, st store.Store, m *c14Model) string {
	h, err := st.Height(ctx)
	if err != nil {
		return fmt.Sprintf("Height() error %v", err)
	}
	if h != m.height {
		return fmt.Sprintf("Height()=%d model=%d", h, m.height)
	}
	for k := uint64(1); k <= c14Heights; k++ {
		ht := m.off + k
		mb := m.blocks[ht]
		hdr, data, err := st.GetBlockData(ctx, ht)
		hdr2, err2 := st.GetHeader(ctx, ht)
		sig, err3 := st.GetSignature(ctx, ht)
		if mb == nil {
			if err == nil || err2 == nil || err3 == nil {
				return fmt.Sprintf("height %d: absent in model but store returned block=%v header=%v sig=%v", ht, err == nil, err2 == nil, err3 == nil)
			}
			continue
		}
		if err != nil || err2 != nil || err3 != nil {
			return fmt.Sprintf("height %d: present in model but store errors: %v / %v / %v", ht, err, err2, err3)
		}
		hb, _ := hdr.MarshalBinary()
		hb2, _ := hdr2.MarshalBinary()
		db, _ := data.MarshalBinary()
		if !bytes.Equal(hb, mb.hb) || !bytes.Equal(hb2, mb.hb) {
			return fmt.Sprintf("height %d: header differs from latest write", ht)
		}
		if !bytes.Equal(db, mb.db) {
			return fmt.Sprintf("height %d: data differs from latest write", ht)
		}
		if !bytes.Equal(*sig, mb.sig) {
			return fmt.Sprintf("height %d: signature differs from latest write", ht)
		}
	}
	for hs, ht := range m.byHash {
		hdr, data, err := st.GetBlockByHash(ctx, []byte(hs))
		sig, err2 := st.GetSignatureByHash(ctx, []byte(hs))
		mb := m.blocks[ht]
		if mb == nil {
			continue
		}
		if err != nil || err2 != nil {
			return fmt.Sprintf("by-hash lookup of a saved hash (height %d) failed: %v / %v", ht, err, err2)
		}
		hb, _ := hdr.MarshalBinary()
		db, _ := data.MarshalBinary()
		if !bytes.Equal(hb, mb.hb) || !bytes.Equal(db, mb.db) || !bytes.Equal(*sig, mb.sig) {
			return fmt.Sprintf("by-hash lookup (height %d) does not return the latest block at that height", ht)
		}
	}
	// unknown hash
	if _, _, err := st.GetBlockByHash(ctx, bytes.Repeat([]byte{0xEE}, 32)); err == nil {
		return "lookup by a never-saved hash succeeded"
	}
	s, err := st.GetState(ctx)
	if m.state == nil {
		if err == nil {
			return "GetState succeeded although no state was written"
		}
	} else {
		if err != nil {
			return fmt.Sprintf("GetState error %v", err)
		}
		if !bytes.Equal(c14StateBytes(s), m.state) {
			return fmt.Sprintf("GetState=%s model=%s", c14StateBytes(s), m.state)
		}
	}
	for _, k := range c14MetaKeys {
		v, err := st.GetMetadata(ctx, k)
		mv, ok := m.meta[k]
		if !ok {
			if err == nil {
				return fmt.Sprintf("metadata %q: never written but read %x", k, v)
			}
			continue
		}
		if err != nil {
			return fmt.Sprintf("metadata %q: written but read fails: %v", k, err)
		}
		if !bytes.Equal(v, mv) {
			return fmt.Sprintf("metadata %q: read %x, last written %x", k, v, mv)
		}
	}
	return ""
}

// c14Apply performs op on the store; returns the error of the store call, and applies it to the model copy.
func c14Apply(ctx context.Context, st store.Store, m *c14Model, op sim.Op) error {
	switch op.K {
	case "save":
		h := m.off + uint64(op.A%c14Heights) + 1
		b := c14MakeBlock(h, op.B%c14Variants, op.C%4)
		err := st.SaveBlockData(ctx, b.hdr, b.data, &b.sig)
		m.blocks[h] = b
		m.byHash[string(b.hdr.Hash())] = h
		return err
	case "setheight":
		h := m.off + uint64(op.A%(c14Heights+2))
		err := st.SetHeight(ctx, h)
		if h > m.height {
			m.height = h
		}
		return err
	case "state":
		s := c14State(op.A%5+1, op.B, op.C)
		err := st.UpdateState(ctx, s)
		m.state = c14StateBytes(s)
		return err
	case "meta":
		k := c14MetaKeys[int(op.A)%len(c14MetaKeys)]
		v := []byte(fmt.Sprintf("v%d", op.B%7))
		if op.B%7 == 0 {
			v = []byte{}
		}
		err := st.SetMetadata(ctx, k, v)
		m.meta[k] = v
		return err
	}
	return nil
}

func c14Run(t *testing.T, s *sim.Scn) *sim.Outcome {
	o := sim.NewOutcome()
	ctx := context.Background()
	var disk *sim.Disk
	var kv ds.Batching
	var tmp string
	badger := s.Cfg["badger"] == 1
	open := func() store.Store {
		if badger {
			var err error
			kv, err = store.NewDefaultKVStore(tmp, "db", "c14")
			if err != nil {
				panic(fmt.Sprintf("INFRA badger open: %v", err))
			}
			return store.New(kv)
		}
		return store.New(disk.Open())
	}
	if badger {
		var err error
		tmp, err = os.MkdirTemp("", "verif-c14-")
		if err != nil {
			panic(err)
		}
		defer os.RemoveAll(tmp)
		defer func() {
			if kv != nil {
				kv.Close()
			}
		}()
	} else {
		disk = sim.NewDisk(nil)
	}
	st := open()
	m := newC14Model()
	// heights of every magnitude (the encodings of a height must round-trip whatever its size)
	m.off = []uint64{0, 0, 0, 250, 1 << 32, 1 << 49, 1<<56 - 4, 1 << 62, ^uint64(0) - 16}[int(s.Cfg["hoff"])%9]
	muts, crashes, reopens, overwrites, diskerrs := 0, 0, 0, 0, 0
	for i, op := range s.Ops {
		switch op.K {
		case "reopen":
			reopens++
			if badger {
				if err := st.Close(); err != nil {
					o.Fail("C14/close-error", "", i, err.Error(), "close succeeds")
					return o
				}
				kv = nil
			}
			st = open()
		case "crashop", "errop":
			if badger {
				continue
			}
			inner := sim.Op{K: op.S, A: op.A, B: op.B, C: op.C}
			before := m.clone()
			after := m.clone()
			if op.K == "errop" {
				diskerrs++
				rej0 := disk.Rejected
				disk.FailNextWrites(1)
				err := c14Apply(ctx, st, after, inner)
				disk.FailNextWrites(0)
				if err == nil && disk.Rejected > rej0 {
					o.Fail("C14/acknowledged-failed-write", "", i, fmt.Sprintf("%s returned nil although the disk rejected one of its writes", inner), "an error")
					return o
				}
				if err == nil {
					// the operation needed no write (e.g. a height that does not grow): then the store must already read as
					// if it had been applied
					if d := c14Verify(ctx, st, after); d != "" {
						o.Fail("C14/read-differs-from-latest-write", "", i, fmt.Sprintf("%s returned nil without writing anything, but: %s", inner, d), "reads return what the latest acknowledged write stored")
						return o
					}
					m = after
					continue
				}
				// the op must have had no effect at all or full effect (a failed op is unacknowledged)
				d0 := c14Verify(ctx, st, before)
				if d0 != "" {
					if d1 := c14Verify(ctx, st, after); d1 != "" {
						o.Fail("C14/partial-effect-after-error", "", i, fmt.Sprintf("after failed %s: vs old: %s; vs new: %s", inner, d0, d1), "old or new state, nothing in between")
						return o
					}
					m = after
				}
				continue
			}
			crashes++
			disk.Arm(int(op.C>>8) % 3)
			err := c14Apply(ctx, st, after, inner)
			fired := disk.Disarm()
			if !fired {
				// crash point beyond the writes of this op: acknowledged, then process dies
				if err != nil {
					o.Fail("C14/op-error", "", i, fmt.Sprintf("%s: %v", inner, err), "success")
					return o
				}
				disk.Fence().Kill()
				m = after
				o.Count("crash:after-op", 1)
			} else {
				o.Count("crash:inside-op", 1)
			}
			st = open()
			d0 := ""
			if fired {
				d0 = c14Verify(ctx, st, before)
				if d0 != "" {
					if d1 := c14Verify(ctx, st, after); d1 != "" {
						o.Fail("C14/torn-write-after-crash", "C14/torn-write-after-crash/"+inner.K, i, fmt.Sprintf("crash inside %s (cut before write %q): vs old: %s; vs new: %s", inner, disk.CrashLabel, d0, d1), "old or new state, nothing in between")
						return o
					}
					m = after
				}
			}
		default:
			if op.K == "save" {
				if _, ok := m.blocks[m.off+uint64(op.A%c14Heights)+1]; ok {
					overwrites++
				}
			}
			muts++
			if err := c14Apply(ctx, st, m, op); err != nil {
				o.Fail("C14/op-error", "", i, fmt.Sprintf("%s: %v", op, err), "success")
				return o
			}
		}
		// Reading everything back after every operation would hide state a store keeps only in memory (a read
		// refreshes it): with cfg lazy=1 the universe is read back only at "check" operations, after crash-cut
		// operations (to learn which side of the cut is durable) and at the end; never right after a reopen.
		if s.Cfg["lazy"] == 1 && op.K != "check" && op.K != "crashop" && op.K != "errop" {
			continue
		}
		if op.K == "check" {
			o.Count("explicit-read-backs", 1)
		}
		if d := c14Verify(ctx, st, m); d != "" {
			o.Fail("C14/read-differs-from-latest-write", "", i, fmt.Sprintf("after %s: %s", op, d), "reads return the latest write")
			return o
		}
		o.States = append(o.States, fmt.Sprintf("h=%d n=%d st=%v meta=%d", m.height, len(m.blocks), m.state != nil, len(m.meta)))
		o.Logf("%d %s h=%d blocks=%d", i, op, m.height, len(m.blocks))
	}
	if d := c14Verify(ctx, st, m); d != "" {
		o.Fail("C14/read-differs-from-latest-write", "", len(s.Ops), "final read-back: "+d, "reads return the latest write")
		return o
	}
	o.Count("reopen", reopens)
	o.Count("overwrite-height", overwrites)
	o.Count("disk-error", diskerrs)
	if badger {
		o.Count("real-badger-run", 1)
	}
	o.NonTrivial = muts >= 2 && (crashes+reopens+diskerrs) >= 1
	return o
}

func c14Gen(r *rand.Rand, tier string) *sim.Scn {
	s := &sim.Scn{Cfg: map[string]int64{"hoff": r.Int64N(9)}}
	if tier == "thorough" && r.IntN(50) == 0 {
		s.Cfg["badger"] = 1
	}
	if r.IntN(2) == 0 {
		s.Cfg["lazy"] = 1
	}
	n := 3 + r.IntN(25)
	kinds := []string{"save", "save", "save", "setheight", "setheight", "state", "meta", "meta"}
	for i := 0; i < n; i++ {
		k := kinds[r.IntN(len(kinds))]
		op := sim.Op{K: k, A: r.Int64N(16), B: r.Int64N(16), C: r.Int64N(4)}
		switch r.IntN(11) {
		case 10:
			op = sim.Op{K: "check"}
		case 0:
			op = sim.Op{K: "reopen"}
		case 1, 2:
			op = sim.Op{K: "crashop", S: k, A: op.A, B: op.B, C: op.C | (r.Int64N(3) << 8)}
		case 3:
			op = sim.Op{K: "errop", S: k, A: op.A, B: op.B, C: op.C}
		}
		s.Ops = append(s.Ops, op)
	}
	return s
}

func TestC14(t *testing.T) {
	sim.Main(t, &sim.Check{
		ID:    "C14",
		Level: "exploration",
		Rule: "seeded operation histories (save/overwrite a height, set height, update state, set the node's metadata keys, reopen, crash cutting the k-th durable write of an operation, injected disk error) " +
			"against a map model; after every operation the whole universe (6 heights, all saved hashes, state, 8 metadata keys) is read back. " +
			"distinct = distinct scenario (hash of config+ops); non-trivial = at least 2 mutations and at least one crash, reopen or disk error executed",
		Assumptions: []string{
			"simulated disk: ordered map + write journal, a batch commit is atomic, process-death crash model (completed writes survive in order)",
			"a fraction of thorough runs repeats histories on a real on-disk badger with close/reopen (no crash there)",
		},
		Components:     map[string]string{"pkg/store.DefaultStore": "real", "types (header/data/state encodings)": "real", "badger": "stub (SimDatastore); real in 1/50 thorough scenarios"},
		Gen:            c14Gen,
		Run:            c14Run,
		QuickBudget:    20 * time.Second,
		ThoroughBudget: 8 * time.Minute,
	})
}
