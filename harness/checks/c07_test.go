package checks

import (
	"bytes"
	"context"
	"fmt"
	"math/rand/v2"
	"strings"
	"testing"
	"time"

	"verif/harness/sim"
)

// C07 — the DA-included (final) height is sound, monotone, durable and eventually reached.
//
// Two roles. role=0: real aggregator (marks come from accepted submissions): production, real
// submission loops, real DAIncluderLoop runs, DA faults, clean restarts, kills and crashes cutting a
// durable write inside an inclusion run. role=1: real follower (marks come from scanning DA):
// seeded blob placement, DA scans, deliveries, inclusion runs, restarts. The DA call log, the
// execution double's finalize log and the disk are the ground truth.

const daiKey = "/0/m/d"

type inclusionOracle struct {
	w        *sim.World
	n        *sim.Node
	o        *sim.Outcome
	id       string
	maxPers  uint64
	maxMem   uint64
	crashes  int // crashes/restarts seen so far
	finSeen  int
	lastFin  uint64
	finCrash int // value of crashes when lastFin was recorded
	// onDA reports whether header / data of block h are on the DA layer in the sense of the role
	// (aggregator: accepted from this node; follower: in a height this node fetched successfully),
	// and at which DA heights blobs for it really are.
	headerOn func(h uint64) (bool, map[uint64]bool)
	dataOn   func(h uint64) (bool, map[uint64]bool)
	empty    func(h uint64) bool
	// shared reports whether another block of the chain carries the same transaction list as block h
	shared func(h uint64) bool
}

func (io *inclusionOracle) check(step int, what string) bool {
	n := io.n
	pers := sim.RawU64(n.Disk, daiKey)
	fail := func(oracle, obs, exp string) bool {
		io.o.Fail(oracle, "", step, what+": "+obs, exp)
		return false
	}
	failData := func(oracle string, x uint64, obs, exp string) bool {
		sig := oracle
		if io.shared != nil && io.shared(x) {
			sig += "/same-tx-list-as-other-block"
		}
		io.o.Fail(oracle, sig, step, what+": "+obs, exp)
		return false
	}
	if pers < io.maxPers {
		return fail(io.id+"/da-included-decreased", fmt.Sprintf("persisted DA-included height went from %d to %d", io.maxPers, pers), "never decreases, also across restarts")
	}
	io.maxPers = pers
	rep := pers
	if n.Alive {
		rep = n.M.GetDAIncludedHeight()
		if rep < io.maxMem && rep < pers {
			return fail(io.id+"/da-included-decreased", fmt.Sprintf("reported DA-included height %d is below what was persisted/reported before (%d/%d)", rep, pers, io.maxMem), "never decreases")
		}
		if rep < io.maxMem {
			// after a restart the in-memory value restarts from the persisted one; it may only be lower than an
			// earlier in-memory value if that one had not been persisted — which cannot happen since persisting precedes reporting
			return fail(io.id+"/da-included-decreased", fmt.Sprintf("reported DA-included height went from %d to %d", io.maxMem, rep), "never decreases, also across restarts")
		}
		io.maxMem = rep
	}
	h := n.Height()
	if rep > h || pers > h {
		return fail(io.id+"/da-included-beyond-chain-height", fmt.Sprintf("DA-included height %d/%d exceeds the chain height %d", rep, pers, h), "never exceeds the chain height")
	}
	top := rep
	if pers > top {
		top = pers
	}
	// finalize log: 1,2,3,... ; a repeat of the last height only directly after a crash
	fins := n.Exec.FinalizeCalls()
	for _, fc := range fins[io.finSeen:] {
		f := fc.Height
		switch {
		case f == io.lastFin+1:
		case f == io.lastFin && fc.Epoch > io.finCrash:
			// a repeat by a later incarnation: the earlier one died between finalizing and recording
		default:
			return fail(io.id+"/finalize-out-of-order", fmt.Sprintf("execution layer asked to finalize %d after %d", f, io.lastFin), "exactly the heights 1,2,3,... in order (a repeat only directly after a crash)")
		}
		io.lastFin = f
		io.finCrash = fc.Epoch
	}
	io.finSeen = len(fins)
	if io.lastFin < top {
		return fail(io.id+"/reported-before-finalized", fmt.Sprintf("DA-included height %d is reported but the execution layer was only asked to finalize up to %d", top, io.lastFin), "finalize before report")
	}
	ctx := context.Background()
	for x := uint64(1); x <= top; x++ {
		hok, hHeights := io.headerOn(x)
		if !hok {
			return fail(io.id+"/included-without-header-on-da", fmt.Sprintf("DA-included height %d but the header of block %d is not on the DA layer", top, x), "header on DA first")
		}
		var dHeights map[uint64]bool
		if !io.empty(x) {
			var dok bool
			dok, dHeights = io.dataOn(x)
			if !dok {
				return failData(io.id+"/included-without-data-on-da", x, fmt.Sprintf("DA-included height %d but the data of non-empty block %d is not on the DA layer", top, x), "data on DA first")
			}
		}
		// recorded DA heights name heights where the blobs really are
		if x <= pers {
			st := n.Peek()
			hb, err1 := st.GetMetadata(ctx, fmt.Sprintf("rhb/%d/h", x))
			db, err2 := st.GetMetadata(ctx, fmt.Sprintf("rhb/%d/d", x))
			if err1 != nil || err2 != nil || len(hb) != 8 || len(db) != 8 {
				return fail(io.id+"/da-heights-not-recorded", fmt.Sprintf("block %d is DA-included but its DA heights are not recorded (%v / %v)", x, err1, err2), "DA heights recorded for every included block")
			}
			hh, dh := leU64(hb), leU64(db)
			if !hHeights[hh] {
				return fail(io.id+"/recorded-da-height-wrong", fmt.Sprintf("block %d: recorded header DA height %d holds no blob of that header (really at %v)", x, hh, keysOf(hHeights)), "a height at which the blob really is")
			}
			if io.empty(x) {
				if dh != hh {
					return fail(io.id+"/recorded-da-height-wrong", fmt.Sprintf("empty block %d: recorded data DA height %d differs from the header's %d", x, dh, hh), "same as the header's for an empty block")
				}
			} else if !dHeights[dh] {
				return failData(io.id+"/recorded-da-height-wrong", x, fmt.Sprintf("block %d: recorded data DA height %d holds no blob of that data (really at %v)", x, dh, keysOf(dHeights)), "a height at which the blob really is")
			}
		}
	}
	return true
}

func leU64(b []byte) uint64 {
	var v uint64
	for i := 7; i >= 0; i-- {
		v = v<<8 | uint64(b[i])
	}
	return v
}

func keysOf(m map[uint64]bool) []uint64 {
	var ks []uint64
	for k := range m {
		ks = append(ks, k)
	}
	return ks
}

func c07Run(t *testing.T, s *sim.Scn) *sim.Outcome {
	o := sim.NewOutcome()
	body := c07Aggregator
	if s.Cfg["role"] == 1 {
		body = c07Follower
	}
	if p := sim.Bubble(t, func() { body(t, s, o) }); p != nil {
		o.Fail("C07/panic", "", -1, fmt.Sprint(p), "no panic")
	}
	return o
}

func c07Aggregator(t *testing.T, s *sim.Scn, o *sim.Outcome) {
	start := time.Now()
	w := sim.NewWorld(t, "c07", 1)
	defer w.Close()
	n := w.AddNode(sim.NodeCfg{Name: "seq", Aggregator: true, MempoolTTL: 1})
	r := newAggRun(w, n, o)
	if !r.start(-1, "C07") {
		return
	}
	l := sim.NewLedger(w, n)
	w.DA.AutoAdvance = true
	blobHeights := func(kind int, h uint64) map[uint64]bool {
		out := map[uint64]bool{}
		for _, b := range w.DA.AllBlobs() {
			if in := sim.DecodeBlob(b.Data); in.Kind == kind && in.Height == h {
				out[b.Height] = true
			}
		}
		return out
	}
	io := &inclusionOracle{w: w, n: n, o: o, id: "C07",
		headerOn: func(h uint64) (bool, map[uint64]bool) { _, ok := l.AccH[h]; return ok, blobHeights(0, h) },
		dataOn:   func(h uint64) (bool, map[uint64]bool) { _, ok := l.AccD[h]; return ok, blobHeights(1, h) },
		empty:    func(h uint64) bool { e, _ := l.BlockEmpty(h); return e },
	}
	io.shared = func(h uint64) bool {
		ctx := context.Background()
		st := n.Peek()
		hdr, err := st.GetHeader(ctx, h)
		if err != nil {
			return false
		}
		for x := uint64(1); x <= n.Height(); x++ {
			if o2, err := st.GetHeader(ctx, x); err == nil && x != h && bytes.Equal(o2.DataHash, hdr.DataHash) {
				return true
			}
		}
		return false
	}
	crashed := false
	killed := map[int]bool{} // incarnations that ended by process death (their in-memory marks were never saved)
	after := func(i int, what string) bool {
		if oracle, msg := l.Scan(); oracle != "" {
			// submission soundness is C06's subject; a failure here would make the ledger meaningless
			o.Fail(oracle, "", i, msg, "sound submissions")
			return false
		}
		return io.check(i, what)
	}
	for i, op := range s.Ops {
		k := -1
		if op.S == "c" {
			k = int(op.C >> 8)
		}
		if op.K == "finalerr" {
			n.Exec.FinalScript = append(n.Exec.FinalScript, true)
			o.Count("scripted-finalize-errors", 1)
			continue
		}
		op2 := op
		op2.S = ""
		epoch := n.Fence.Epoch()
		f, err := r.exec(op2, k)
		if op.K == "stop" {
			io.crashes++
		}
		if f || !n.Alive {
			if f {
				killed[epoch] = true
				crashed = true
				io.crashes++
				o.Count("crashes", 1)
			}
			w.DA.SubmitScript = nil
			if !r.start(i, "C07") {
				return
			}
		} else if err != nil {
			if op.K == "include" && !strings.Contains(err.Error(), "cannot finalize right now") {
				o.Fail("C07/includer-halted", "", i, fmt.Sprintf("DA includer loop reported a fatal error: %v", err), "no fatal error")
				return
			}
			if op.K == "include" {
				// the execution layer refused to finalize: the node shuts down (the soundness checks below look at
				// what it reports at this very moment) and is restarted
				if !after(i, op.String()+" (finalize refused)") {
					return
				}
			}
			_ = n.StopClean()
			io.crashes++
			if !r.start(i, "C07") {
				return
			}
		}
		if !after(i, op.String()) {
			return
		}
		o.States = append(o.States, n.AbstractState())
		o.Logf("%d %s %s", i, op, n.AbstractState())
	}
	for k, v := range w.DA.Stats {
		o.Count("da:"+k, v)
	}
	// faults stop. The node keeps producing and submitting (an aggregator always does); everything committed
	// up to now must be reported as DA-included within a small budget of rounds.
	w.DA.SubmitScript = nil
	n.Exec.FinalScript = nil
	h0 := n.Height()
	budget := 4
	for j := 0; j < budget && (n.M.GetDAIncludedHeight() < h0 || j == 0); j++ {
		time.Sleep(time.Second)
		if _, err := r.exec(sim.Op{K: "produce"}, -1); err != nil {
			_ = n.StopClean()
			io.crashes++
			if !r.start(len(s.Ops)+j, "C07") {
				return
			}
		}
		r.exec(sim.Op{K: "subh", A: 90}, -1)
		r.exec(sim.Op{K: "subd", A: 90}, -1)
		if err := n.Include(); err != nil {
			o.Fail("C07/includer-halted", "", len(s.Ops)+j, fmt.Sprintf("DA includer loop reported a fatal error: %v", err), "no fatal error")
			return
		}
		if !after(len(s.Ops)+j, "final round") {
			return
		}
	}
	if missing := l.AllOnDA(); missing != "" {
		o.Count("skipped:not-all-on-da", 1) // C06's subject
		return
	}
	if got := n.M.GetDAIncludedHeight(); got < h0 {
		class := "no-crash"
		if crashed {
			class = "after-crash"
			// the recorded finding: a part of the first unreported block was only ever accepted by incarnations that
			// died (its mark lived in memory only). If every part was (also) accepted by an incarnation that stopped
			// in an orderly way - which saves the marks - or by the running one, the marks cannot have been lost that way.
			onlyKilled := func(eps map[int]bool) bool {
				for e := range eps {
					if !killed[e] {
						return false
					}
				}
				return true
			}
			b := got + 1
			lost := onlyKilled(l.AccHEpochs[b])
			if empty, err := l.BlockEmpty(b); err == nil && !empty && onlyKilled(l.AccDEpochs[b]) {
				lost = true
			}
			if !lost {
				class = "after-crash/marks-had-been-saved"
			}
		}
		o.Fail("C07/da-included-not-reached", "C07/da-included-not-reached/aggregator/"+class, len(s.Ops),
			fmt.Sprintf("every header and data up to height %d was accepted by the DA layer and acknowledged, %d rounds of produce/submit/include passed, but the DA-included height is %d", h0, budget, got),
			"once both parts of every block up to h are on the DA layer the node reports h")
		return
	}
	o.SimTime = time.Since(start)
	o.NonTrivial = n.Height() >= 3 && (o.Counters["crashes"] > 0 || len(w.DA.Stats) > 2)
}

func c07Follower(t *testing.T, s *sim.Scn, o *sim.Outcome) {
	start := time.Now()
	w := sim.NewWorld(t, "c07", 1)
	defer w.Close()
	var spec []int64
	for _, op := range s.Ops {
		if op.K == "spec" {
			spec = append(spec, op.A%10)
		}
	}
	if len(spec) == 0 {
		spec = []int64{1}
	}
	blocks, _, err := buildChain(w, spec)
	if err != nil {
		o.Count("skipped:proposer-failed", 1)
		return
	}
	f := w.AddNode(sim.NodeCfg{Name: "full"})
	fw := &followerWorld{w: w, f: f, blocks: blocks, o: o, planted: map[string]bool{}, hDeliv: map[uint64]bool{}, dDeliv: map[uint64]bool{}, id: "C07"}
	fw.fillP2P()
	if err := f.StartNode(); err != nil {
		o.Fail("C07/cannot-start", "", -1, err.Error(), "starts")
		return
	}
	// which DA heights did the follower fetch successfully
	fetched := func() map[uint64]bool {
		out := map[uint64]bool{}
		for _, c := range w.DA.CallsSince(0) {
			if c.By == "full" && c.Op == "get" && c.Outcome == "ok" {
				out[c.Height] = true
			}
		}
		return out
	}
	on := func(kind int, h uint64) (bool, map[uint64]bool) {
		heights := map[uint64]bool{}
		ok := false
		ft := fetched()
		for _, b := range w.DA.AllBlobs() {
			in := sim.DecodeBlob(b.Data)
			if in.Kind != kind || in.Height != h {
				continue
			}
			if kind == 0 && !bytes.Equal(in.Hdr.Hash(), blocks[h-1].Header.Hash()) {
				continue
			}
			heights[b.Height] = true
			if ft[b.Height] {
				ok = true
			}
		}
		return ok, heights
	}
	io := &inclusionOracle{w: w, n: f, o: o, id: "C07",
		headerOn: func(h uint64) (bool, map[uint64]bool) { return on(0, h) },
		dataOn:   func(h uint64) (bool, map[uint64]bool) { return on(1, h) },
		empty:    func(h uint64) bool { return blocks[h-1].Empty },
		shared: func(h uint64) bool {
			for _, b := range blocks {
				if b.H != h && bytes.Equal(b.Header.DataHash, blocks[h-1].Header.DataHash) {
					return true
				}
			}
			return false
		},
	}
	top := fw.top()
	for i, op := range s.Ops {
		switch op.K {
		case "plant":
			fw.plant(int(op.A)%len(blocks), op.B%2, uint64(op.C%4))
		case "retrieve":
			w.DA.SetCur(fw.maxDA)
			f.Retrieve()
		case "rfault":
			// the next fetch of one of the coming DA heights fails (listing or a Get chunk; generic error, DA-side
			// cancellation, wrapped deadline, DA deadline error, timed out)
			h := f.M.VerifDAHeight() + uint64(op.A%4)
			w.DA.ReadScript[h] = append(w.DA.ReadScript[h], sim.ReadOutcome{Kind: []sim.ReadKind{sim.ReadListErr, sim.ReadChunkErr}[op.B%2], Chunk: 0, Flavor: []int{0, 1, 2, 3, 5}[op.C%5]})
			o.Count("scripted-da-read-faults", 1)
		case "p2p":
			fw.hP2P = min64u(top, fw.hP2P+uint64(op.A%4))
			fw.dP2P = min64u(top, fw.dP2P+uint64(op.B%4))
			f.HStore.SetHeight(fw.hP2P)
			f.DStore.SetHeight(fw.dP2P)
			f.PollP2P()
		case "deliver":
			if !fw.deliver(i, op.A, op.B, false) {
				return
			}
		case "include":
			fired := f.WithCrash(crashArg(op), func() { err = f.Include() })
			if fired {
				io.crashes++
				o.Count("crashes", 1)
				if err := f.StartNode(); err != nil {
					o.Fail("C07/cannot-restart", "", i, err.Error(), "restarts")
					return
				}
				fw.restarts++
			} else if err != nil && strings.Contains(err.Error(), "cannot finalize right now") {
				if !io.check(i, op.String()+" (finalize refused)") {
					return
				}
				_ = f.StopClean()
				io.crashes++
				if err := f.StartNode(); err != nil {
					o.Fail("C07/cannot-restart", "", i, err.Error(), "restarts")
					return
				}
				fw.restarts++
			} else if err != nil {
				o.Fail("C07/includer-halted", "", i, fmt.Sprintf("DA includer loop reported a fatal error: %v", err), "no fatal error")
				return
			}
		case "finalerr":
			f.Exec.FinalScript = append(f.Exec.FinalScript, true)
			o.Count("scripted-finalize-errors", 1)
		case "restart", "kill":
			if op.K == "restart" {
				_ = f.StopClean()
			} else {
				f.Crash()
				o.Count("crashes", 1)
			}
			io.crashes++
			if err := f.StartNode(); err != nil {
				o.Fail("C07/cannot-restart", "", i, err.Error(), "restarts")
				return
			}
			fw.restarts++
		}
		if !io.check(i, op.String()) {
			return
		}
		o.States = append(o.States, f.AbstractState())
		o.Logf("%d %s %s", i, op, f.AbstractState())
	}
	f.Exec.FinalScript = nil
	w.DA.ReadScript = map[uint64][]sim.ReadOutcome{}
	// final: all blobs on DA, scanned, everything delivered and applied; then a small inclusion budget
	for bi, b := range blocks {
		if !fw.planted[fmt.Sprintf("%d/0", bi)] {
			fw.plant(bi, 0, uint64(bi%2))
		}
		if !b.Empty && !fw.planted[fmt.Sprintf("%d/1", bi)] {
			fw.plant(bi, 1, uint64(bi%3))
		}
	}
	w.DA.SetCur(fw.maxDA + 1)
	for round := 0; round < 3 && f.Height() < top; round++ {
		f.Retrieve()
		f.PollP2P()
		for len(f.HeaderFIFO) > 0 || len(f.DataFIFO) > 0 {
			fifo := int64(0)
			if len(f.HeaderFIFO) == 0 {
				fifo = 1
			}
			if !fw.deliver(len(s.Ops), fifo, 0, false) {
				return
			}
		}
	}
	if f.Height() != top {
		o.Count("skipped:not-converged(C02)", 1)
		return
	}
	for j := 0; j < 3; j++ {
		if err := f.Include(); err != nil {
			o.Fail("C07/includer-halted", "", len(s.Ops)+j, fmt.Sprintf("DA includer loop reported a fatal error: %v", err), "no fatal error")
			return
		}
		f.Retrieve() // DA ticks keep coming (they find no new blobs)
		if !io.check(len(s.Ops)+j, "final include") {
			return
		}
	}
	if got := f.M.GetDAIncludedHeight(); got != top {
		o.Fail("C07/da-included-not-reached", "C07/da-included-not-reached/follower", len(s.Ops),
			fmt.Sprintf("all %d blocks are on the DA layer, scanned and applied, 3 inclusion runs and DA ticks passed, but the DA-included height is %d", top, got),
			"once both parts of every block up to h are on the DA layer (and scanned and applied) the node reports h")
		return
	}
	o.SimTime = time.Since(start)
	o.NonTrivial = len(blocks) >= 3
}

func crashArg(op sim.Op) int {
	if op.S == "c" {
		return int(op.C >> 8)
	}
	return -1
}

func c07Gen(r *rand.Rand, tier string) *sim.Scn {
	if r.IntN(2) == 0 {
		// aggregator
		s := &sim.Scn{Cfg: map[string]int64{"role": 0}}
		n := 8 + r.IntN(40)
		pFault := r.IntN(50)
		pEmpty := r.IntN(80)
		pKill := r.IntN(8)
		for i := 0; i < n; i++ {
			switch x := r.IntN(100); {
			case x < 30:
				s.Ops = append(s.Ops, sim.Op{K: "sleep", A: 1000})
				if r.IntN(100) >= pEmpty {
					if r.IntN(8) == 0 {
						s.Ops = append(s.Ops, sim.Op{K: "same", A: r.Int64N(2)})
					} else {
						s.Ops = append(s.Ops, sim.Op{K: "tx", A: r.Int64N(4)}, sim.Op{K: "reap"})
					}
				}
				s.Ops = append(s.Ops, sim.Op{K: "produce"})
			case x < 60:
				if r.IntN(100) < pFault {
					s.Ops = append(s.Ops, sim.Op{K: "da", A: r.Int64N(14), B: r.Int64N(5), C: r.Int64N(2)})
				}
				op := sim.Op{K: []string{"subh", "subd"}[r.IntN(2)], A: r.Int64N(3)}
				if r.IntN(8) == 0 {
					op.A = 90
				}
				s.Ops = append(s.Ops, op)
			case x < 85:
				if r.IntN(8) == 0 {
					s.Ops = append(s.Ops, sim.Op{K: "finalerr"})
				}
				op := sim.Op{K: "include"}
				if r.IntN(5) == 0 {
					op.S = "c"
					op.C = r.Int64N(6) << 8
				}
				s.Ops = append(s.Ops, op)
			case x < 92:
				s.Ops = append(s.Ops, sim.Op{K: "stop"})
			default:
				if r.IntN(8) < pKill {
					s.Ops = append(s.Ops, sim.Op{K: "kill"})
				}
			}
		}
		return s
	}
	s := &sim.Scn{Cfg: map[string]int64{"role": 1}}
	n := 2 + r.IntN(8)
	pEmpty := r.IntN(70)
	for i := 0; i < n; i++ {
		v := int64(1 + r.IntN(3))
		if r.IntN(100) < pEmpty {
			v = 0
		} else if r.IntN(10) == 0 {
			v = 9
		}
		s.Ops = append(s.Ops, sim.Op{K: "spec", A: v})
	}
	m := 5 + r.IntN(8*n)
	for i := 0; i < m; i++ {
		switch x := r.IntN(100); {
		case x < 25:
			s.Ops = append(s.Ops, sim.Op{K: "plant", A: r.Int64N(int64(n + 1)), B: r.Int64N(2), C: r.Int64N(4)})
		case x < 40:
			if r.IntN(4) == 0 {
				s.Ops = append(s.Ops, sim.Op{K: "rfault", A: r.Int64N(4), B: r.Int64N(2), C: r.Int64N(5)})
			}
			s.Ops = append(s.Ops, sim.Op{K: "retrieve"})
		case x < 48:
			s.Ops = append(s.Ops, sim.Op{K: "p2p", A: r.Int64N(4), B: r.Int64N(4)})
		case x < 75:
			s.Ops = append(s.Ops, sim.Op{K: "deliver", A: r.Int64N(2), B: r.Int64N(64)})
		case x < 92:
			if r.IntN(8) == 0 {
				s.Ops = append(s.Ops, sim.Op{K: "finalerr"})
			}
			op := sim.Op{K: "include"}
			if r.IntN(5) == 0 {
				op.S = "c"
				op.C = r.Int64N(6) << 8
			}
			s.Ops = append(s.Ops, op)
		case x < 96:
			s.Ops = append(s.Ops, sim.Op{K: "restart"})
		default:
			s.Ops = append(s.Ops, sim.Op{K: "kill"})
		}
	}
	return s
}

func TestC07(t *testing.T) {
	sim.Main(t, &sim.Check{
		ID:    "C07",
		Level: "exploration",
		Rule: "two roles, drawn per scenario. aggregator: seeded production (empty/non-empty), scripted DA outcomes, runs of the real submission loops, runs of the real DA-includer loop, clean restarts, kills, crashes cutting a durable write inside an inclusion run. follower: seeded chain, DA placements, scans (with scripted read faults: listing/chunk errors that are generic, DA-side cancellations, deadline errors or timeouts), P2P polls, arbitrary-order deliveries, inclusion runs (optionally cut by a crash), clean restarts, kills. " +
			"after every operation: reported/persisted height monotone (also across restarts), <= chain height, finalize log 1,2,3,... before report, parts on DA before inclusion, recorded DA heights name heights where the blobs are; finally bounded liveness. distinct = distinct scenario hash; non-trivial = chain of >= 3 blocks and (aggregator) a crash or DA fault executed",
		Assumptions: []string{"initial height held at 1 (not in this property's quantifier)", "liveness budget: 3 inclusion runs interleaved with ticks after everything is on DA (and, for the follower, scanned and applied)"},
		Components:  map[string]string{"block.DAIncluderLoop / IsDAIncluded / SetRollkitHeightToDAHeight / incrementDAIncludedHeight": "real", "submission loops, RetrieveLoop, SyncLoop": "real", "pkg/cache (DA-included marks, cache files on clean stop)": "real", "DA": "stub (SimDA)", "executor (finalize log)": "stub (SimExec)"},
		Gen:         c07Gen,
		Run:         c07Run,
		Directed: []*sim.Scn{
			// follower: everything is seen on DA and the includer runs before the blocks are applied
			{Cfg: map[string]int64{"role": 1}, Ops: []sim.Op{{K: "spec", A: 1}, {K: "spec", A: 0}, {K: "plant", A: 0, B: 0}, {K: "plant", A: 1, B: 0}, {K: "plant", A: 1, B: 1}, {K: "plant", A: 2, B: 0}, {K: "retrieve"}, {K: "include"}}},
			// aggregator: crash after an acknowledged submission (known finding)
			{Cfg: map[string]int64{"role": 0}, Ops: []sim.Op{{K: "produce"}, {K: "subh"}, {K: "kill"}}},
			// follower: two blocks with identical transaction lists (known finding)
			{Cfg: map[string]int64{"role": 1}, Ops: []sim.Op{{K: "spec", A: 9}, {K: "spec", A: 9}}},
			// follower: same, but the data of the later block is not on DA at all when the block gets included (known finding)
			{Cfg: map[string]int64{"role": 1}, Ops: []sim.Op{{K: "spec", A: 9}, {K: "spec", A: 9}, {K: "plant", A: 0, B: 0}, {K: "plant", A: 1, B: 0}, {K: "plant", A: 1, B: 1}, {K: "plant", A: 2, B: 0},
				{K: "retrieve"}, {K: "p2p", A: 3, B: 3}, {K: "deliver", A: 0}, {K: "deliver", A: 0}, {K: "deliver", A: 0}, {K: "deliver", A: 0}, {K: "deliver", A: 0}, {K: "deliver", A: 0},
				{K: "deliver", A: 1}, {K: "deliver", A: 1}, {K: "deliver", A: 1}, {K: "deliver", A: 1}, {K: "include"}}},
		},
		QuickBudget: 30 * time.Second, ThoroughBudget: 12 * time.Minute,
	})
}
